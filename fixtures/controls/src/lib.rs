#![allow(dead_code, static_mut_refs)]
use std::arch::x86_64::*;
use std::cell::Cell;

pub static mut SCRATCH: [u8; 64] = [0; 64];
pub static COUNTER: std::sync::atomic::AtomicUsize = std::sync::atomic::AtomicUsize::new(0);
thread_local! { pub static TL: Cell<u32> = Cell::new(0); }

pub struct NotSync(pub Cell<u8>, pub *const u8);
unsafe impl Sync for NotSync {}
unsafe impl Send for NotSync {}

pub fn write_static(x: u8) {
    unsafe { SCRATCH[0] = x; }
    TL.with(|c| c.set(x as u32));
}

/// aligned load / typed deref of a byte pointer, pointer-to-integer cast, read past the end
pub fn aligned_load(data: &[u8; 16]) -> (i64, u32, usize, u8) {
    unsafe {
        let p = data.as_ptr();
        let v = _mm_load_si128(p as *const __m128i);
        let w = *(p as *const u32);
        let a = p as usize;
        let past = *p.offset(16);
        (_mm_cvtsi128_si64(v), w, a & 15, past)
    }
}

pub union Padded {
    pub a: (u8, u32),
    pub b: [u8; 8],
}
pub fn read_padded(x: (u8, u32)) -> [u8; 8] {
    unsafe { Padded { a: x }.b }
}

/// address-dependent splitting of a byte slice
pub fn split_by_alignment(data: &mut [u8]) -> usize {
    let (head, body, _tail) = unsafe { data.align_to_mut::<u64>() };
    head.len() + body.len()
}

/// a length counter that silently wraps at 2^32
pub struct Counting {
    pub datalen: usize,
}
pub fn count_bytes(c: &mut Counting, data: &[u8]) -> u32 {
    c.datalen += data.len() as u32 as usize;
    c.datalen as u32
}
