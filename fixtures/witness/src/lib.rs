//! Compile-pass witnesses: every public state type is Send + Sync (C18) and the hashers are
//! Clone + Default (C08).  If one of these stops holding, this crate stops compiling.
#![allow(dead_code)]
use digest::generic_array::typenum::{U128, U32, U64};

fn send_sync<T: Send + Sync>() {}
fn clone_default<T: Clone + Default>() {}

pub fn witnesses() {
    send_sync::<c2_chacha::ChaCha8>();
    send_sync::<c2_chacha::ChaCha12>();
    send_sync::<c2_chacha::ChaCha20>();
    send_sync::<c2_chacha::Ietf>();
    send_sync::<c2_chacha::XChaCha8>();
    send_sync::<c2_chacha::XChaCha12>();
    send_sync::<c2_chacha::XChaCha20>();
    send_sync::<c2_chacha::guts::ChaCha>();
    send_sync::<threefish_cipher::Threefish256>();
    send_sync::<threefish_cipher::Threefish512>();
    send_sync::<threefish_cipher::Threefish1024>();
    macro_rules! hasher { ($($t:ty),*) => { $( send_sync::<$t>(); clone_default::<$t>(); )* } }
    hasher!(blake_hash::Blake224, blake_hash::Blake256, blake_hash::Blake384, blake_hash::Blake512,
            groestl_aesni::Groestl224, groestl_aesni::Groestl256, groestl_aesni::Groestl384, groestl_aesni::Groestl512,
            jh_x86_64::Jh224, jh_x86_64::Jh256, jh_x86_64::Jh384, jh_x86_64::Jh512,
            skein_hash::Skein256<U32>, skein_hash::Skein512<U64>, skein_hash::Skein1024<U128>);
}

/// Safe code cannot obtain a Machine: `instance` is an unsafe fn (C03, R3.2).
/// ```compile_fail,E0133
/// use ppv_lite86::Machine;
/// let _m = ppv_lite86::x86_64::AVX2::instance();
/// ```
/// The compiling twin differs only by the `unsafe` block:
/// ```
/// use ppv_lite86::Machine;
/// let _m = unsafe { ppv_lite86::x86_64::AVX2::instance() };
/// ```
pub struct MachineNeedsUnsafe;
