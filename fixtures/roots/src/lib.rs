//! Monomorphic roots for the fact extractor. Nothing here is ever run.
#![allow(dead_code, unused_imports, non_snake_case)]

use cipher::generic_array::GenericArray;
use cipher::{BlockDecrypt, BlockEncrypt, NewBlockCipher, NewCipher, StreamCipher, StreamCipherSeek};
use digest::{FixedOutputDirty, Reset, Update};

/// Marker: factgen enumerates the whole ppv-lite86 vocabulary of `M` when it meets an
/// instance of this function.
pub fn verif_machine_root<M: ppv_lite86::Machine>() {}

#[cfg(not(feature = "no_simd"))]
pub fn machines() {
    verif_machine_root::<ppv_lite86::x86_64::SSE2>();
    verif_machine_root::<ppv_lite86::x86_64::SSSE3>();
    verif_machine_root::<ppv_lite86::x86_64::SSE41>();
    verif_machine_root::<ppv_lite86::x86_64::AVX>();
    verif_machine_root::<ppv_lite86::x86_64::AVX2>();
    generic_cores::<ppv_lite86::x86_64::SSE2>(unsafe { <ppv_lite86::x86_64::SSE2 as ppv_lite86::Machine>::instance() });
    generic_cores::<ppv_lite86::x86_64::SSSE3>(unsafe { <ppv_lite86::x86_64::SSSE3 as ppv_lite86::Machine>::instance() });
    generic_cores::<ppv_lite86::x86_64::SSE41>(unsafe { <ppv_lite86::x86_64::SSE41 as ppv_lite86::Machine>::instance() });
    generic_cores::<ppv_lite86::x86_64::AVX2>(unsafe { <ppv_lite86::x86_64::AVX2 as ppv_lite86::Machine>::instance() });
}
#[cfg(feature = "no_simd")]
pub fn machines() {
    verif_machine_root::<ppv_lite86::generic::GenericMachine>();
    generic_cores::<ppv_lite86::generic::GenericMachine>(unsafe {
        <ppv_lite86::generic::GenericMachine as ppv_lite86::Machine>::instance()
    });
}

/// Public entry points that are generic in the Machine.
pub fn generic_cores<M: ppv_lite86::Machine>(m: M) {
    let mut st = [ppv_lite86::vec128_storage::default(); 8];
    let data = [0u8; 64];
    jh_x86_64::compressor::f8_impl(m, &mut st, data.as_ptr());
    let mut c256 = blake_hash_compressor256();
    blake_hash::u32x4::put_block(m, &mut c256, &GenericArray::default(), (0, 0));
    let mut c512 = blake_hash_compressor512();
    blake_hash::u64x4::put_block(m, &mut c512, &GenericArray::default(), (0, 0));
}
fn blake_hash_compressor256() -> blake_hash::Compressor256 {
    Default::default()
}
fn blake_hash_compressor512() -> blake_hash::Compressor512 {
    Default::default()
}

fn stream_cipher<C: NewCipher + StreamCipher + StreamCipherSeek>(
    key: &GenericArray<u8, C::KeySize>,
    nonce: &GenericArray<u8, C::NonceSize>,
    data: &mut [u8],
) {
    let mut c = C::new(key, nonce);
    let _ = c.try_apply_keystream(data);
    c.apply_keystream(data);
    let _ = c.try_seek(0u8);
    let _ = c.try_seek(0u16);
    let _ = c.try_seek(0u32);
    let _ = c.try_seek(0u64);
    let _ = c.try_seek(0u128);
    let _ = c.try_seek(0usize);
    let _ = c.try_seek(0i32);
    c.seek(0u64);
    let _: Result<u64, _> = c.try_current_pos();
    let _: u64 = c.current_pos();
}

pub fn chacha(data: &mut [u8]) {
    use c2_chacha::*;
    let k = GenericArray::default();
    stream_cipher::<ChaCha8>(&k, &GenericArray::default(), data);
    stream_cipher::<ChaCha12>(&k, &GenericArray::default(), data);
    stream_cipher::<ChaCha20>(&k, &GenericArray::default(), data);
    stream_cipher::<Ietf>(&k, &GenericArray::default(), data);
    stream_cipher::<XChaCha8>(&k, &GenericArray::default(), data);
    stream_cipher::<XChaCha12>(&k, &GenericArray::default(), data);
    stream_cipher::<XChaCha20>(&k, &GenericArray::default(), data);
}

pub fn chacha_guts(key: &[u8; 32], nonce8: &[u8; 8], nonce12: &[u8; 12], out1: &mut [u8; 64], out4: &mut [u8; 256], n: u32, v: u64) -> (u64, bool, bool) {
    use c2_chacha::guts::ChaCha;
    let mut a = ChaCha::new(key, nonce8);
    let b = ChaCha::new(key, nonce12);
    a.refill(n, out1);
    a.refill4(n, out4);
    a.set_stream_param(n, v);
    let g = a.get_stream_param(n);
    (g, a.stream32_eq(&b), a.stream64_eq(&b))
}

fn hasher<D: Default + Update + FixedOutputDirty + Reset + Clone>(data: &[u8]) {
    let mut d = D::default();
    d.update(data);
    let mut e = d.clone();
    let mut out = GenericArray::default();
    e.finalize_into_dirty(&mut out);
    d.reset();
}

pub fn hashes(data: &[u8]) {
    use digest::generic_array::typenum::{U1, U100, U128, U129, U16, U20, U200, U256, U28, U32, U33, U48, U64, U65, U7, U96};
    hasher::<blake_hash::Blake224>(data);
    hasher::<blake_hash::Blake256>(data);
    hasher::<blake_hash::Blake384>(data);
    hasher::<blake_hash::Blake512>(data);
    hasher::<jh_x86_64::Jh224>(data);
    hasher::<jh_x86_64::Jh256>(data);
    hasher::<jh_x86_64::Jh384>(data);
    hasher::<jh_x86_64::Jh512>(data);
    hasher::<skein_hash::Skein256<U32>>(data);
    hasher::<skein_hash::Skein512<U64>>(data);
    hasher::<skein_hash::Skein1024<U128>>(data);
    // output lengths that are not the state size: multi-block output and odd sizes
    hasher::<skein_hash::Skein256<U7>>(data);
    hasher::<skein_hash::Skein256<U200>>(data);
    hasher::<skein_hash::Skein512<U1>>(data);
    hasher::<skein_hash::Skein1024<U200>>(data);
    // the output sizes named by the Skein paper (128/160/224/384 bits) and sizes just above a block
    hasher::<skein_hash::Skein256<U16>>(data);
    hasher::<skein_hash::Skein256<U20>>(data);
    hasher::<skein_hash::Skein256<U28>>(data);
    hasher::<skein_hash::Skein256<U33>>(data);
    hasher::<skein_hash::Skein512<U28>>(data);
    hasher::<skein_hash::Skein512<U48>>(data);
    hasher::<skein_hash::Skein512<U65>>(data);
    hasher::<skein_hash::Skein512<U100>>(data);
    hasher::<skein_hash::Skein1024<U96>>(data);
    hasher::<skein_hash::Skein1024<U129>>(data);
    hasher::<skein_hash::Skein1024<U256>>(data);
    #[cfg(feature = "groestl")]
    {
        hasher::<groestl_aesni::Groestl224>(data);
        hasher::<groestl_aesni::Groestl256>(data);
        hasher::<groestl_aesni::Groestl384>(data);
        hasher::<groestl_aesni::Groestl512>(data);
    }
}

fn block_cipher<C: NewBlockCipher + BlockEncrypt + BlockDecrypt + Clone>(
    key: &GenericArray<u8, C::KeySize>,
    block: &mut GenericArray<u8, C::BlockSize>,
) {
    let c = C::new(key);
    c.encrypt_block(block);
    c.decrypt_block(block);
    // every other way the traits offer to run the cipher
    let mut two = [block.clone(), block.clone()];
    c.encrypt_blocks(&mut two);
    c.decrypt_blocks(&mut two);
    let mut par = GenericArray::<GenericArray<u8, C::BlockSize>, C::ParBlocks>::default();
    c.encrypt_par_blocks(&mut par);
    c.decrypt_par_blocks(&mut par);
    let _ = C::new_from_slice(key.as_slice());
    let _ = c.clone();
}

pub fn threefish(t0: u64, t1: u64) {
    use threefish_cipher::*;
    block_cipher::<Threefish256>(&GenericArray::default(), &mut GenericArray::default());
    block_cipher::<Threefish512>(&GenericArray::default(), &mut GenericArray::default());
    block_cipher::<Threefish1024>(&GenericArray::default(), &mut GenericArray::default());
    let _ = Threefish256::with_tweak(&GenericArray::default(), t0, t1);
    let _ = Threefish512::with_tweak(&GenericArray::default(), t0, t1);
    let _ = Threefish1024::with_tweak(&GenericArray::default(), t0, t1);
}
