#!/bin/bash
# usage: confirm_seed.sh <worktree> <seed name> <property> [demo subdir]   (demo = cargo project using `cargo test`)
# Confirms, in the scratch worktree, that the seeded change (OUT/patch.diff) compiles, passes the
# existing suite, and that the demo fails with it and passes without; then stores it under /verif/seeded.
set -u
WT="$1"; NAME="$2"; PROP="$3"; DEMO="${4:-OUT/demo}"
export CARGO_TARGET_DIR="$WT/target" CARGO_NET_OFFLINE=true
cd "$WT" || exit 2
git checkout -q -- . 2>/dev/null
git apply OUT/patch.diff || { echo "patch does not apply"; exit 2; }
echo "-- workspace tests with the change"
cargo test --workspace --offline 2>&1 | grep -E "^test result|FAILED|^error" | sort | uniq -c | head -5
SUITE=$(cargo test --workspace --offline 2>&1 | grep -cE "FAILED|^error")
echo "-- demo with the change (must fail)"
DEMOCMD="${DEMOCMD:-cargo test --offline --manifest-path $WT/$DEMO/Cargo.toml}"
( eval "$DEMOCMD" ) > /tmp/demo_with.log 2>&1; W=$?
tail -3 /tmp/demo_with.log
git apply -R OUT/patch.diff
echo "-- demo without the change (must pass)"
( eval "$DEMOCMD" ) > /tmp/demo_without.log 2>&1; WO=$?
tail -3 /tmp/demo_without.log
echo "suite_failures=$SUITE demo_with_rc=$W demo_without_rc=$WO"
if [ "$SUITE" = 0 ] && [ $W != 0 ] && [ $WO = 0 ]; then
  D=/verif/seeded/$NAME; rm -rf $D; mkdir -p $D
  cp OUT/patch.diff $D/patch.diff
  cp -r $DEMO $D/demo; rm -rf $D/demo/target
  grep -rl "$WT" $D/demo 2>/dev/null | xargs -r sed -i "s#$WT#/repo#g"
  python3 - "$D" "$PROP" "$WT" "$DEMOCMD" <<'PY'
import json,sys
d,prop,wt,cmd=sys.argv[1:5]
try: m=json.load(open(wt+'/OUT/meta.json'))
except Exception: m={}
m['property']=prop
m['confirmed']={"workspace_tests_with_change":"pass","demo_with_change":"fails","demo_without_change":"passes",
  "command":cmd.replace(wt,'/repo'),"note":"confirmed in a scratch worktree; the stored demo's path dependencies point at /repo (apply patch.diff there first)"}
json.dump(m,open(d+'/meta.json','w'),indent=1)
PY
  echo "STORED $D"
else
  echo "NOT CONFIRMED"
fi
