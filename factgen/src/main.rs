//! factgen (engine E0): a rustc driver that dumps, for the crate being compiled, the facts the
//! Python engines of /verif need: the monomorphic call graph from the crate's roots with the MIR of
//! every reachable instance (callees resolved, types with layouts, constants evaluated to bytes),
//! per-definition attributes (target features, safety, visibility, spans with macro backtraces),
//! statics, unsafe impls, and the ppv-lite86 Machine vocabulary enumerated by trait elaboration.
//!
//! Used as RUSTC_WRAPPER. Only crates named in FACTGEN_CRATES are analysed (others are compiled
//! normally); one JSON file per analysed crate is written into FACTGEN_OUT.
#![feature(rustc_private)]
#![allow(clippy::all)]

extern crate rustc_abi;
extern crate rustc_data_structures;
extern crate rustc_driver;
extern crate rustc_hir;
extern crate rustc_interface;
extern crate rustc_middle;
extern crate rustc_span;

mod json;
mod walk;

use rustc_driver::Compilation;
use rustc_interface::interface::Compiler;
use rustc_middle::ty::TyCtxt;

struct Cb {
    out_dir: String,
}

impl rustc_driver::Callbacks for Cb {
    fn after_analysis<'tcx>(&mut self, _c: &Compiler, tcx: TyCtxt<'tcx>) -> Compilation {
        walk::run(tcx, &self.out_dir);
        Compilation::Continue
    }
}

struct NoCb;
impl rustc_driver::Callbacks for NoCb {}

fn main() {
    let mut args: Vec<String> = std::env::args().collect();
    // RUSTC_WRAPPER / RUSTC_WORKSPACE_WRAPPER: argv[1] is the path of the real rustc.
    if args.len() > 1 && (args[1].ends_with("rustc") || args[1].contains("/rustc")) {
        args.remove(1);
    }
    let mut crate_name = String::new();
    for i in 0..args.len() {
        if args[i] == "--crate-name" && i + 1 < args.len() {
            crate_name = args[i + 1].clone();
        }
    }
    let wanted = std::env::var("FACTGEN_CRATES").unwrap_or_default();
    let out_dir = std::env::var("FACTGEN_OUT").unwrap_or_default();
    let analyse = !out_dir.is_empty()
        && !crate_name.is_empty()
        && wanted.split(',').any(|w| w == crate_name);
    if analyse {
        rustc_driver::run_compiler(&args, &mut Cb { out_dir });
    } else {
        rustc_driver::run_compiler(&args, &mut NoCb);
    }
}
