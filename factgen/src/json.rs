//! Minimal JSON value + writer (no external crates available offline).
use std::fmt::Write;

#[derive(Clone, Debug)]
pub enum J {
    Null,
    Bool(bool),
    Int(i128),
    UInt(u128),
    Str(String),
    Arr(Vec<J>),
    Obj(Vec<(String, J)>),
}

impl J {
    pub fn s<T: Into<String>>(t: T) -> J {
        J::Str(t.into())
    }
    pub fn obj() -> J {
        J::Obj(Vec::new())
    }
    pub fn set<K: Into<String>>(&mut self, k: K, v: J) -> &mut Self {
        if let J::Obj(o) = self {
            o.push((k.into(), v));
        }
        self
    }
    pub fn with<K: Into<String>>(mut self, k: K, v: J) -> Self {
        self.set(k, v);
        self
    }
    pub fn write(&self, out: &mut String) {
        match self {
            J::Null => out.push_str("null"),
            J::Bool(b) => out.push_str(if *b { "true" } else { "false" }),
            J::Int(i) => {
                // Large values are written as strings so that readers do not lose precision.
                if *i > (1i128 << 62) || *i < -(1i128 << 62) {
                    let _ = write!(out, "\"{}\"", i);
                } else {
                    let _ = write!(out, "{}", i);
                }
            }
            J::UInt(i) => {
                if *i > (1u128 << 62) {
                    let _ = write!(out, "\"{}\"", i);
                } else {
                    let _ = write!(out, "{}", i);
                }
            }
            J::Str(s) => write_str(s, out),
            J::Arr(a) => {
                out.push('[');
                for (i, x) in a.iter().enumerate() {
                    if i > 0 {
                        out.push(',');
                    }
                    x.write(out);
                }
                out.push(']');
            }
            J::Obj(o) => {
                out.push('{');
                for (i, (k, v)) in o.iter().enumerate() {
                    if i > 0 {
                        out.push(',');
                    }
                    write_str(k, out);
                    out.push(':');
                    v.write(out);
                }
                out.push('}');
            }
        }
    }
}

fn write_str(s: &str, out: &mut String) {
    out.push('"');
    for c in s.chars() {
        match c {
            '"' => out.push_str("\\\""),
            '\\' => out.push_str("\\\\"),
            '\n' => out.push_str("\\n"),
            '\r' => out.push_str("\\r"),
            '\t' => out.push_str("\\t"),
            c if (c as u32) < 0x20 => {
                let _ = write!(out, "\\u{:04x}", c as u32);
            }
            c => out.push(c),
        }
    }
    out.push('"');
}
