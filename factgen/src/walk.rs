use crate::json::J;
use rustc_hir::def::DefKind;
use rustc_hir::def_id::{DefId, LOCAL_CRATE};
use rustc_middle::mir::interpret::{AllocId, GlobalAlloc, Scalar};
use rustc_middle::mir::{
    self, AggregateKind, BinOp, Body, CastKind, ConstValue, Operand, Place, ProjectionElem, Rvalue,
    StatementKind, TerminatorKind, UnOp,
};
use rustc_middle::ty::print::{with_no_trimmed_paths, with_no_visible_paths};
use rustc_middle::ty::{
    self, EarlyBinder, GenericArgsRef, Instance, InstanceKind, Ty, TyCtxt, TypingEnv,
};
use rustc_span::Span;
use std::collections::{BTreeMap, HashSet, VecDeque};

pub struct Ctx<'tcx> {
    tcx: TyCtxt<'tcx>,
    env: TypingEnv<'tcx>,
    types: BTreeMap<String, J>,
    defs: BTreeMap<String, J>,
    instances: Vec<(String, J)>,
    seen: HashSet<String>,
    queue: VecDeque<Instance<'tcx>>,
    vocab: Vec<J>,
    roots: Vec<J>,
    machines_done: HashSet<String>,
    allocs: BTreeMap<String, J>,
    max_instances: usize,
}

fn file_line(tcx: TyCtxt<'_>, span: Span) -> (String, usize) {
    let sm = tcx.sess.source_map();
    let sp = span.source_callsite();
    let loc = sm.lookup_char_pos(sp.lo());
    let name = format!("{}", loc.file.name.prefer_local_unconditionally());
    (name, loc.line)
}

fn span_json(tcx: TyCtxt<'_>, span: Span) -> J {
    let (f, l) = file_line(tcx, span);
    let mut macros = Vec::new();
    for ed in span.macro_backtrace() {
        macros.push(J::s(format!("{}", ed.kind.descr())));
    }
    let mut o = J::obj().with("file", J::s(f)).with("line", J::UInt(l as u128));
    if !macros.is_empty() {
        o.set("macros", J::Arr(macros));
    }
    o
}

impl<'tcx> Ctx<'tcx> {
    fn mono<T>(&self, inst: Instance<'tcx>, v: T) -> T
    where
        T: rustc_middle::ty::TypeFoldable<TyCtxt<'tcx>>,
    {
        inst.instantiate_mir_and_normalize_erasing_regions(self.tcx, self.env, EarlyBinder::bind(v))
    }

    pub fn ty_str(&self, ty: Ty<'tcx>) -> String {
        with_no_visible_paths!(with_no_trimmed_paths!(format!("{}", ty)))
    }

    fn def_str(&self, did: DefId) -> String {
        with_no_visible_paths!(with_no_trimmed_paths!(self.tcx.def_path_str(did)))
    }

    fn inst_key(&self, inst: Instance<'tcx>) -> String {
        with_no_visible_paths!(with_no_trimmed_paths!(format!("{}", inst)))
    }

    fn layout_size_align(&self, ty: Ty<'tcx>) -> Option<(u64, u64)> {
        match self.tcx.layout_of(self.env.as_query_input(ty)) {
            Ok(l) => {
                if l.is_unsized() {
                    None
                } else {
                    Some((l.size.bytes(), l.align.abi.bytes()))
                }
            }
            Err(_) => None,
        }
    }

    /// Register a (monomorphic) type in the type table and return its key.
    pub fn ty(&mut self, ty: Ty<'tcx>) -> String {
        let key = self.ty_str(ty);
        if self.types.contains_key(&key) {
            return key;
        }
        self.types.insert(key.clone(), J::Null); // recursion guard
        let mut o = J::obj();
        if let Some((s, a)) = self.layout_size_align(ty) {
            o.set("size", J::UInt(s as u128));
            o.set("align", J::UInt(a as u128));
        }
        let tcx = self.tcx;
        match ty.kind() {
            ty::Bool => {
                o.set("kind", J::s("bool"));
            }
            ty::Char => {
                o.set("kind", J::s("char"));
            }
            ty::Int(it) => {
                o.set("kind", J::s("int"));
                o.set("signed", J::Bool(true));
                o.set("bits", J::UInt(it.bit_width().unwrap_or(64) as u128));
                o.set("name", J::s(it.name_str()));
            }
            ty::Uint(ut) => {
                o.set("kind", J::s("int"));
                o.set("signed", J::Bool(false));
                o.set("bits", J::UInt(ut.bit_width().unwrap_or(64) as u128));
                o.set("name", J::s(ut.name_str()));
            }
            ty::Float(ft) => {
                o.set("kind", J::s("float"));
                o.set("bits", J::UInt(ft.bit_width() as u128));
            }
            ty::Never => {
                o.set("kind", J::s("never"));
            }
            ty::Str => {
                o.set("kind", J::s("str"));
            }
            ty::Array(elem, len) => {
                o.set("kind", J::s("array"));
                let e = self.ty(*elem);
                o.set("elem", J::s(e));
                let n = len.try_to_target_usize(tcx);
                match n {
                    Some(n) => o.set("len", J::UInt(n as u128)),
                    None => o.set("len", J::Null),
                };
            }
            ty::Slice(elem) => {
                o.set("kind", J::s("slice"));
                let e = self.ty(*elem);
                o.set("elem", J::s(e));
            }
            ty::Ref(_, pointee, m) => {
                o.set("kind", J::s("ref"));
                o.set("mut", J::Bool(m.is_mut()));
                let p = self.ty(*pointee);
                o.set("pointee", J::s(p));
            }
            ty::RawPtr(pointee, m) => {
                o.set("kind", J::s("rawptr"));
                o.set("mut", J::Bool(m.is_mut()));
                let p = self.ty(*pointee);
                o.set("pointee", J::s(p));
            }
            ty::Tuple(fields) => {
                o.set("kind", J::s("tuple"));
                let layout = tcx.layout_of(self.env.as_query_input(ty)).ok();
                let mut fs = Vec::new();
                for (i, f) in fields.iter().enumerate() {
                    let k = self.ty(f);
                    let mut fo = J::obj().with("ty", J::s(k));
                    if let Some(l) = &layout {
                        fo.set("offset", J::UInt(l.fields.offset(i).bytes() as u128));
                    }
                    fs.push(fo);
                }
                o.set("fields", J::Arr(fs));
            }
            ty::Adt(adt, args) => {
                let kind = if adt.is_union() {
                    "union"
                } else if adt.is_enum() {
                    "enum"
                } else {
                    "struct"
                };
                o.set("kind", J::s(kind));
                o.set("def", J::s(self.def_str(adt.did())));
                o.set("krate", J::s(tcx.crate_name(adt.did().krate).to_string()));
                o.set("repr_simd", J::Bool(adt.repr().simd()));
                o.set("repr_transparent", J::Bool(adt.repr().transparent()));
                o.set("repr_c", J::Bool(adt.repr().c()));
                let mut targs = Vec::new();
                for a in args.iter() {
                    if let Some(t) = a.as_type() {
                        let k = self.ty(t);
                        targs.push(J::s(k));
                    } else if let Some(c) = a.as_const() {
                        targs.push(J::s(format!("const {}", c)));
                    }
                }
                o.set("args", J::Arr(targs));
                let layout = tcx.layout_of(self.env.as_query_input(ty)).ok();
                let mut vs = Vec::new();
                for (vi, v) in adt.variants().iter_enumerated() {
                    let mut fs = Vec::new();
                    for (fi, f) in v.fields.iter().enumerate() {
                        let fty = f.ty(tcx, args);
                        let fty = tcx.normalize_erasing_regions(self.env, ty::Unnormalized::new(fty));
                        let k = self.ty(fty);
                        let mut fo =
                            J::obj().with("name", J::s(f.name.to_string())).with("ty", J::s(k));
                        if let Some(l) = &layout {
                            if !adt.is_enum() {
                                fo.set("offset", J::UInt(l.fields.offset(fi).bytes() as u128));
                            } else if let rustc_abi::Variants::Multiple { variants, .. } = &l.variants {
                                let vl = &variants[vi];
                                fo.set("offset", J::UInt(vl.fields.offset(fi).bytes() as u128));
                            } else if let rustc_abi::Variants::Single { index } = &l.variants {
                                if *index == vi {
                                    fo.set("offset", J::UInt(l.fields.offset(fi).bytes() as u128));
                                }
                            }
                        }
                        fs.push(fo);
                    }
                    let mut vo = J::obj()
                        .with("name", J::s(v.name.to_string()))
                        .with("fields", J::Arr(fs));
                    if adt.is_enum() {
                        let d = adt.discriminant_for_variant(tcx, vi);
                        vo.set("discr", J::UInt(d.val));
                    }
                    vs.push(vo);
                }
                o.set("variants", J::Arr(vs));
                let freeze = ty.is_freeze(tcx, self.env);
                o.set("freeze", J::Bool(freeze));
            }
            ty::FnDef(did, args) => {
                o.set("kind", J::s("fndef"));
                o.set("def", J::s(self.def_str(*did)));
                if let Ok(Some(inst)) = Instance::try_resolve(tcx, self.env, *did, args) {
                    o.set("inst", J::s(self.inst_key(inst)));
                    self.enqueue(inst);
                }
            }
            ty::FnPtr(..) => {
                o.set("kind", J::s("fnptr"));
            }
            ty::Closure(did, args) => {
                o.set("kind", J::s("closure"));
                o.set("def", J::s(self.def_str(*did)));
                let layout = tcx.layout_of(self.env.as_query_input(ty)).ok();
                let mut fs = Vec::new();
                for (i, f) in args.as_closure().upvar_tys().iter().enumerate() {
                    let k = self.ty(f);
                    let mut fo = J::obj().with("ty", J::s(k));
                    if let Some(l) = &layout {
                        fo.set("offset", J::UInt(l.fields.offset(i).bytes() as u128));
                    }
                    fs.push(fo);
                }
                o.set("fields", J::Arr(fs));
            }
            ty::Dynamic(..) => {
                o.set("kind", J::s("dyn"));
            }
            ty::Foreign(..) => {
                o.set("kind", J::s("foreign"));
            }
            _ => {
                o.set("kind", J::s("other"));
                o.set("debug", J::s(format!("{:?}", ty.kind())));
            }
        }
        self.types.insert(key.clone(), o);
        key
    }

    fn def_info(&mut self, did: DefId) -> String {
        let key = self.def_str(did);
        if self.defs.contains_key(&key) {
            return key;
        }
        let tcx = self.tcx;
        let mut o = J::obj();
        o.set("krate", J::s(tcx.crate_name(did.krate).to_string()));
        let dk = tcx.def_kind(did);
        o.set("def_kind", J::s(format!("{:?}", dk)));
        o.set("span", span_json(tcx, tcx.def_span(did)));
        if matches!(dk, DefKind::Fn | DefKind::AssocFn | DefKind::Closure | DefKind::Ctor(..)) {
            let attrs = tcx.codegen_fn_attrs(did);
            let mut tf = Vec::new();
            for f in attrs.target_features.iter() {
                tf.push(
                    J::obj()
                        .with("name", J::s(f.name.to_string()))
                        .with("implied", J::Bool(matches!(f.kind, rustc_middle::middle::codegen_fn_attrs::TargetFeatureKind::Implied))),
                );
            }
            o.set("target_features", J::Arr(tf));
            o.set("inline", J::s(format!("{:?}", attrs.inline)));
        }
        if matches!(dk, DefKind::Fn | DefKind::AssocFn) {
            let sig = tcx.fn_sig(did).skip_binder();
            o.set("unsafe", J::Bool(!sig.safety().is_safe()));
            o.set("vis", J::s(format!("{:?}", tcx.visibility(did))));
            o.set("name", J::s(tcx.item_name(did).to_string()));
            // parent impl / trait
            if let Some(parent) = tcx.opt_parent(did) {
                match tcx.def_kind(parent) {
                    DefKind::Impl { of_trait } => {
                        o.set("impl_of_trait", J::Bool(of_trait));
                        if of_trait {
                            let tr = tcx.impl_trait_ref(parent).skip_binder();
                            o.set("trait", J::s(self.def_str(tr.def_id)));
                        }
                    }
                    DefKind::Trait => {
                        o.set("trait_default", J::s(self.def_str(parent)));
                    }
                    _ => {}
                }
            }
        }
        self.defs.insert(key.clone(), o);
        key
    }

    fn enqueue(&mut self, inst: Instance<'tcx>) {
        let key = self.inst_key(inst);
        if self.seen.insert(key) {
            self.queue.push_back(inst);
        }
    }

    fn alloc_bytes(&mut self, id: AllocId, depth: usize) -> J {
        let tcx = self.tcx;
        match tcx.global_alloc(id) {
            GlobalAlloc::Memory(a) => {
                let a = a.inner();
                let len = a.len();
                let bytes = a.inspect_with_uninit_and_ptr_outside_interpreter(0..len);
                let mut hex = String::with_capacity(len * 2);
                for b in bytes {
                    hex.push_str(&format!("{:02x}", b));
                }
                let mut o = J::obj().with("bytes", J::s(hex));
                let ptrs: Vec<_> = a.provenance().ptrs().iter().collect();
                if !ptrs.is_empty() && depth < 4 {
                    let mut ps = Vec::new();
                    for (off, prov) in ptrs {
                        let inner = self.alloc_bytes(prov.alloc_id(), depth + 1);
                        ps.push(J::obj().with("offset", J::UInt(off.bytes() as u128)).with("to", inner));
                    }
                    o.set("ptrs", J::Arr(ps));
                }
                o
            }
            GlobalAlloc::Static(did) => {
                let mut o = J::obj().with("static", J::s(self.def_str(did)));
                // an immutable static without interior mutability has exactly its initialiser's bytes
                let immutable = matches!(tcx.def_kind(did), DefKind::Static { mutability, .. } if !mutability.is_mut());
                let nested = matches!(tcx.def_kind(did), DefKind::Static { nested: true, .. });
                let foreign = tcx.is_foreign_item(did);
                if immutable && !foreign && !nested {
                    let ty = tcx.type_of(did).instantiate_identity().skip_norm_wip();
                    let tls = tcx.is_thread_local_static(did);
                    if ty.is_freeze(tcx, self.env) && !tls {
                        if let Ok(a) = tcx.eval_static_initializer(did) {
                            let a = a.inner();
                            let len = a.len();
                            if a.provenance().ptrs().is_empty() {
                                let bytes = a.inspect_with_uninit_and_ptr_outside_interpreter(0..len);
                                let mut hex = String::with_capacity(len * 2);
                                for b in bytes {
                                    hex.push_str(&format!("{:02x}", b));
                                }
                                o.set("bytes", J::s(hex));
                            }
                        }
                    }
                }
                o
            }
            GlobalAlloc::Function { instance } => {
                self.enqueue(instance);
                J::obj().with("fn", J::s(self.inst_key(instance)))
            }
            _ => J::obj().with("other_alloc", J::Bool(true)),
        }
    }

    fn const_json(&mut self, inst: Instance<'tcx>, c: &mir::ConstOperand<'tcx>) -> J {
        let tcx = self.tcx;
        let cv = self.mono(inst, c.const_);
        let ty = cv.ty();
        let tk = self.ty(ty);
        let mut o = J::obj().with("ty", J::s(tk));
        if let ty::FnDef(did, args) = ty.kind() {
            o.set("fndef", self.callee_json(*did, args));
            return o;
        }
        match cv.eval(tcx, self.env, c.span) {
            Ok(val) => match val {
                ConstValue::Scalar(Scalar::Int(i)) => {
                    let bits = i.size().bits();
                    let v = i.to_bits(i.size());
                    o.set("int", J::UInt(v));
                    o.set("bits", J::UInt(bits as u128));
                }
                ConstValue::Scalar(Scalar::Ptr(p, _)) => {
                    let (prov, off) = p.into_raw_parts();
                    let a = self.alloc_bytes(prov.alloc_id(), 0);
                    o.set("ptr", a);
                    o.set("ptr_offset", J::UInt(off.bytes() as u128));
                }
                ConstValue::ZeroSized => {
                    o.set("zst", J::Bool(true));
                }
                ConstValue::Slice { alloc_id, meta } => {
                    let a = self.alloc_bytes(alloc_id, 0);
                    o.set("slice", a);
                    o.set("meta", J::UInt(meta as u128));
                }
                ConstValue::Indirect { alloc_id, offset } => {
                    let a = self.alloc_bytes(alloc_id, 0);
                    o.set("indirect", a);
                    o.set("offset", J::UInt(offset.bytes() as u128));
                }
            },
            Err(_) => {
                o.set("eval_error", J::Bool(true));
            }
        }
        o
    }

    fn callee_json(&mut self, did: DefId, args: GenericArgsRef<'tcx>) -> J {
        let tcx = self.tcx;
        let mut o = J::obj();
        let dkey = self.def_info(did);
        o.set("def", J::s(dkey));
        let mut gargs = Vec::new();
        for a in args.iter() {
            if let Some(t) = a.as_type() {
                let k = self.ty(t);
                gargs.push(J::obj().with("ty", J::s(k)));
            } else if let Some(c) = a.as_const() {
                let mut co = J::obj().with("const", J::s(format!("{}", c)));
                if let Some(v) = c.try_to_leaf() {
                    co.set("int", J::UInt(v.to_bits(v.size())));
                    co.set("bits", J::UInt(v.size().bits() as u128));
                }
                gargs.push(co);
            }
        }
        o.set("generic_args", J::Arr(gargs));
        match Instance::try_resolve(tcx, self.env, did, args) {
            Ok(Some(inst)) => {
                o.set("inst", J::s(self.inst_key(inst)));
                let kind = match inst.def {
                    InstanceKind::Item(_) => "item",
                    InstanceKind::Intrinsic(_) => "intrinsic",
                    InstanceKind::Virtual(..) => "virtual",
                    InstanceKind::FnPtrShim(..) => "fnptr_shim",
                    InstanceKind::ClosureOnceShim { .. } => "closure_once_shim",
                    InstanceKind::DropGlue(..) => "drop_glue",
                    InstanceKind::CloneShim(..) => "clone_shim",
                    InstanceKind::ReifyShim(..) => "reify_shim",
                    InstanceKind::VTableShim(..) => "vtable_shim",
                    _ => "other_shim",
                };
                o.set("kind", J::s(kind));
                let rdid = inst.def_id();
                let rk = self.def_info(rdid);
                o.set("resolved_def", J::s(rk));
                if let InstanceKind::Intrinsic(_) = inst.def {
                    o.set("intrinsic", J::s(tcx.item_name(rdid).to_string()));
                } else if !matches!(inst.def, InstanceKind::Virtual(..)) {
                    self.enqueue(inst);
                }
            }
            _ => {
                o.set("kind", J::s("unresolved"));
            }
        }
        o
    }

    fn operand(&mut self, inst: Instance<'tcx>, op: &Operand<'tcx>) -> J {
        match op {
            Operand::Copy(p) => J::obj().with("copy", self.place(inst, p)),
            Operand::Move(p) => J::obj().with("move", self.place(inst, p)),
            Operand::Constant(c) => J::obj().with("const", self.const_json(inst, c)),
            #[allow(unreachable_patterns)]
            _ => J::obj().with("runtime_check", J::s(format!("{:?}", op))),
        }
    }

    fn place(&mut self, inst: Instance<'tcx>, p: &Place<'tcx>) -> J {
        let mut proj = Vec::new();
        for e in p.projection.iter() {
            let j = match e {
                ProjectionElem::Deref => J::obj().with("k", J::s("deref")),
                ProjectionElem::Field(f, t) => {
                    let t = self.mono(inst, t);
                    let tk = self.ty(t);
                    J::obj()
                        .with("k", J::s("field"))
                        .with("i", J::UInt(f.index() as u128))
                        .with("ty", J::s(tk))
                }
                ProjectionElem::Index(l) => {
                    J::obj().with("k", J::s("index")).with("local", J::UInt(l.index() as u128))
                }
                ProjectionElem::ConstantIndex { offset, min_length, from_end } => J::obj()
                    .with("k", J::s("constindex"))
                    .with("offset", J::UInt(offset as u128))
                    .with("min_length", J::UInt(min_length as u128))
                    .with("from_end", J::Bool(from_end)),
                ProjectionElem::Subslice { from, to, from_end } => J::obj()
                    .with("k", J::s("subslice"))
                    .with("from", J::UInt(from as u128))
                    .with("to", J::UInt(to as u128))
                    .with("from_end", J::Bool(from_end)),
                ProjectionElem::Downcast(_, v) => {
                    J::obj().with("k", J::s("downcast")).with("variant", J::UInt(v.index() as u128))
                }
                ProjectionElem::OpaqueCast(_) => J::obj().with("k", J::s("opaque_cast")),
                ProjectionElem::UnwrapUnsafeBinder(_) => J::obj().with("k", J::s("unwrap_binder")),
            };
            proj.push(j);
        }
        J::obj().with("local", J::UInt(p.local.index() as u128)).with("proj", J::Arr(proj))
    }

    fn rvalue(&mut self, inst: Instance<'tcx>, body: &Body<'tcx>, rv: &Rvalue<'tcx>) -> J {
        let tcx = self.tcx;
        match rv {
            Rvalue::Use(op, ..) => J::obj().with("k", J::s("use")).with("op", self.operand(inst, op)),
            Rvalue::Repeat(op, n) => {
                let n = self.mono(inst, *n);
                J::obj()
                    .with("k", J::s("repeat"))
                    .with("op", self.operand(inst, op))
                    .with(
                        "count",
                        match n.try_to_target_usize(tcx) {
                            Some(v) => J::UInt(v as u128),
                            None => J::Null,
                        },
                    )
            }
            Rvalue::Ref(_, bk, p) => J::obj()
                .with("k", J::s("ref"))
                .with("mut", J::Bool(matches!(bk, mir::BorrowKind::Mut { .. })))
                .with("place", self.place(inst, p)),
            Rvalue::RawPtr(kind, p) => J::obj()
                .with("k", J::s("rawptr"))
                .with("kind", J::s(format!("{:?}", kind)))
                .with("place", self.place(inst, p)),
            Rvalue::Cast(ck, op, ty) => {
                let t = self.mono(inst, *ty);
                let tk = self.ty(t);
                let from = self.mono(inst, op.ty(body, tcx));
                let fk = self.ty(from);
                let ckind = match ck {
                    CastKind::IntToInt => "int_to_int".to_string(),
                    CastKind::Transmute => "transmute".to_string(),
                    CastKind::PtrToPtr => "ptr_to_ptr".to_string(),
                    CastKind::FnPtrToPtr => "fnptr_to_ptr".to_string(),
                    CastKind::PointerExposeProvenance => "ptr_expose".to_string(),
                    CastKind::PointerWithExposedProvenance => "ptr_from_exposed".to_string(),
                    CastKind::PointerCoercion(pc, _) => format!("coerce:{:?}", pc),
                    other => format!("{:?}", other),
                };
                J::obj()
                    .with("k", J::s("cast"))
                    .with("cast", J::s(ckind))
                    .with("op", self.operand(inst, op))
                    .with("from", J::s(fk))
                    .with("to", J::s(tk))
            }
            Rvalue::BinaryOp(op, ab) => {
                let (a, b) = &**ab;
                let name = match op {
                    BinOp::Add => "add",
                    BinOp::AddUnchecked => "add_unchecked",
                    BinOp::AddWithOverflow => "add_overflow",
                    BinOp::Sub => "sub",
                    BinOp::SubUnchecked => "sub_unchecked",
                    BinOp::SubWithOverflow => "sub_overflow",
                    BinOp::Mul => "mul",
                    BinOp::MulUnchecked => "mul_unchecked",
                    BinOp::MulWithOverflow => "mul_overflow",
                    BinOp::Div => "div",
                    BinOp::Rem => "rem",
                    BinOp::BitXor => "bitxor",
                    BinOp::BitAnd => "bitand",
                    BinOp::BitOr => "bitor",
                    BinOp::Shl => "shl",
                    BinOp::ShlUnchecked => "shl_unchecked",
                    BinOp::Shr => "shr",
                    BinOp::ShrUnchecked => "shr_unchecked",
                    BinOp::Eq => "eq",
                    BinOp::Lt => "lt",
                    BinOp::Le => "le",
                    BinOp::Ne => "ne",
                    BinOp::Ge => "ge",
                    BinOp::Gt => "gt",
                    BinOp::Cmp => "cmp",
                    BinOp::Offset => "offset",
                };
                let ta = self.mono(inst, a.ty(body, tcx));
                let tak = self.ty(ta);
                J::obj()
                    .with("k", J::s("binop"))
                    .with("op", J::s(name))
                    .with("a", self.operand(inst, a))
                    .with("b", self.operand(inst, b))
                    .with("ty", J::s(tak))
            }
            Rvalue::UnaryOp(op, a) => {
                let name = match op {
                    UnOp::Not => "not",
                    UnOp::Neg => "neg",
                    UnOp::PtrMetadata => "ptr_metadata",
                };
                let ta = self.mono(inst, a.ty(body, tcx));
                let tak = self.ty(ta);
                J::obj()
                    .with("k", J::s("unop"))
                    .with("op", J::s(name))
                    .with("a", self.operand(inst, a))
                    .with("ty", J::s(tak))
            }
            Rvalue::Discriminant(p) => {
                J::obj().with("k", J::s("discriminant")).with("place", self.place(inst, p))
            }
            Rvalue::Aggregate(kind, ops) => {
                let mut o = J::obj().with("k", J::s("aggregate"));
                match &**kind {
                    AggregateKind::Array(t) => {
                        let t = self.mono(inst, *t);
                        let tk = self.ty(t);
                        o.set("agg", J::s("array"));
                        o.set("elem", J::s(tk));
                    }
                    AggregateKind::Tuple => {
                        o.set("agg", J::s("tuple"));
                    }
                    AggregateKind::Adt(did, variant, args, _, active_field) => {
                        o.set("agg", J::s("adt"));
                        o.set("def", J::s(self.def_str(*did)));
                        o.set("variant", J::UInt(variant.index() as u128));
                        let _ = args;
                        if let Some(f) = active_field {
                            o.set("union_field", J::UInt(f.index() as u128));
                        }
                    }
                    AggregateKind::Closure(did, _) => {
                        o.set("agg", J::s("closure"));
                        o.set("def", J::s(self.def_str(*did)));
                    }
                    AggregateKind::RawPtr(t, m) => {
                        let t = self.mono(inst, *t);
                        let tk = self.ty(t);
                        o.set("agg", J::s("rawptr"));
                        o.set("pointee", J::s(tk));
                        o.set("mut", J::Bool(m.is_mut()));
                    }
                    other => {
                        o.set("agg", J::s(format!("other:{:?}", other)));
                    }
                }
                let mut v = Vec::new();
                for op in ops.iter() {
                    v.push(self.operand(inst, op));
                }
                o.set("ops", J::Arr(v));
                o
            }
            Rvalue::CopyForDeref(p) => {
                J::obj().with("k", J::s("use")).with("op", J::obj().with("copy", self.place(inst, p)))
            }
            Rvalue::ThreadLocalRef(did) => {
                J::obj().with("k", J::s("thread_local_ref")).with("def", J::s(self.def_str(*did)))
            }
            other => J::obj().with("k", J::s("unsupported")).with("debug", J::s(format!("{:?}", other))),
        }
    }

    fn body_json(&mut self, inst: Instance<'tcx>, body: &Body<'tcx>) -> J {
        let tcx = self.tcx;
        let mut locals = Vec::new();
        for (_, decl) in body.local_decls.iter_enumerated() {
            let t = self.mono(inst, decl.ty);
            let k = self.ty(t);
            locals.push(J::s(k));
        }
        let mut blocks = Vec::new();
        for (_bb, data) in body.basic_blocks.iter_enumerated() {
            let mut stmts = Vec::new();
            for st in data.statements.iter() {
                match &st.kind {
                    StatementKind::Assign(bx) => {
                        let (p, rv) = &**bx;
                        let mut o = J::obj()
                            .with("k", J::s("assign"))
                            .with("place", self.place(inst, p))
                            .with("rv", self.rvalue(inst, body, rv));
                        let (_f, l) = file_line(tcx, st.source_info.span);
                        o.set("line", J::UInt(l as u128));
                        stmts.push(o);
                    }
                    StatementKind::SetDiscriminant { place, variant_index } => {
                        stmts.push(
                            J::obj()
                                .with("k", J::s("set_discriminant"))
                                .with("place", self.place(inst, place))
                                .with("variant", J::UInt(variant_index.index() as u128)),
                        );
                    }
                    StatementKind::Intrinsic(ni) => {
                        let mut o = J::obj().with("k", J::s("intrinsic"));
                        match &**ni {
                            mir::NonDivergingIntrinsic::Assume(op) => {
                                o.set("name", J::s("assume"));
                                o.set("op", self.operand(inst, op));
                            }
                            mir::NonDivergingIntrinsic::CopyNonOverlapping(c) => {
                                o.set("name", J::s("copy_nonoverlapping"));
                                o.set("src", self.operand(inst, &c.src));
                                o.set("dst", self.operand(inst, &c.dst));
                                o.set("count", self.operand(inst, &c.count));
                            }
                        }
                        stmts.push(o);
                    }
                    _ => {}
                }
            }
            let term = data.terminator();
            let mut t = J::obj();
            t.set("span", span_json(tcx, term.source_info.span));
            match &term.kind {
                TerminatorKind::Goto { target } => {
                    t.set("k", J::s("goto"));
                    t.set("target", J::UInt(target.index() as u128));
                }
                TerminatorKind::SwitchInt { discr, targets } => {
                    t.set("k", J::s("switch"));
                    t.set("discr", self.operand(inst, discr));
                    let dty = self.mono(inst, discr.ty(body, tcx));
                    let dk = self.ty(dty);
                    t.set("ty", J::s(dk));
                    let mut cases = Vec::new();
                    for (v, bb) in targets.iter() {
                        cases.push(J::Arr(vec![J::UInt(v), J::UInt(bb.index() as u128)]));
                    }
                    t.set("cases", J::Arr(cases));
                    t.set("otherwise", J::UInt(targets.otherwise().index() as u128));
                }
                TerminatorKind::Return => {
                    t.set("k", J::s("return"));
                }
                TerminatorKind::Unreachable => {
                    t.set("k", J::s("unreachable"));
                }
                TerminatorKind::Drop { place, target, .. } => {
                    t.set("k", J::s("drop"));
                    t.set("place", self.place(inst, place));
                    t.set("target", J::UInt(target.index() as u128));
                    let pty = self.mono(inst, place.ty(body, tcx).ty);
                    let needs = pty.needs_drop(tcx, self.env);
                    t.set("needs_drop", J::Bool(needs));
                }
                TerminatorKind::Call { func, args, destination, target, .. } => {
                    t.set("k", J::s("call"));
                    let fty = self.mono(inst, func.ty(body, tcx));
                    match fty.kind() {
                        ty::FnDef(did, gargs) => {
                            t.set("callee", self.callee_json(*did, gargs));
                        }
                        _ => {
                            t.set("indirect", self.operand(inst, func));
                        }
                    }
                    let mut av = Vec::new();
                    for a in args.iter() {
                        av.push(self.operand(inst, &a.node));
                    }
                    t.set("args", J::Arr(av));
                    t.set("dest", self.place(inst, destination));
                    match target {
                        Some(bb) => t.set("target", J::UInt(bb.index() as u128)),
                        None => t.set("target", J::Null),
                    };
                }
                TerminatorKind::Assert { cond, expected, msg, target, .. } => {
                    t.set("k", J::s("assert"));
                    t.set("cond", self.operand(inst, cond));
                    t.set("expected", J::Bool(*expected));
                    let kind = match &**msg {
                        mir::AssertKind::BoundsCheck { .. } => "bounds".to_string(),
                        mir::AssertKind::Overflow(op, ..) => format!("overflow:{:?}", op),
                        mir::AssertKind::OverflowNeg(..) => "overflow_neg".to_string(),
                        mir::AssertKind::DivisionByZero(..) => "div_zero".to_string(),
                        mir::AssertKind::RemainderByZero(..) => "rem_zero".to_string(),
                        mir::AssertKind::MisalignedPointerDereference { .. } => "misaligned".to_string(),
                        mir::AssertKind::NullPointerDereference => "null_deref".to_string(),
                        other => format!("other:{:?}", other),
                    };
                    t.set("msg", J::s(kind));
                    if let mir::AssertKind::BoundsCheck { len, index } = &**msg {
                        t.set("len", self.operand(inst, len));
                        t.set("index", self.operand(inst, index));
                    }
                    t.set("target", J::UInt(target.index() as u128));
                }
                TerminatorKind::UnwindResume => {
                    t.set("k", J::s("resume"));
                }
                TerminatorKind::UnwindTerminate(..) => {
                    t.set("k", J::s("terminate"));
                }
                TerminatorKind::InlineAsm { .. } => {
                    t.set("k", J::s("inline_asm"));
                }
                other => {
                    t.set("k", J::s("unsupported"));
                    t.set("debug", J::s(format!("{:?}", other)));
                }
            }
            blocks.push(J::obj().with("stmts", J::Arr(stmts)).with("term", t).with("cleanup", J::Bool(data.is_cleanup)));
        }
        J::obj()
            .with("arg_count", J::UInt(body.arg_count as u128))
            .with("locals", J::Arr(locals))
            .with("blocks", J::Arr(blocks))
    }

    fn emit_instance(&mut self, inst: Instance<'tcx>) {
        let tcx = self.tcx;
        let key = self.inst_key(inst);
        let did = inst.def_id();
        let dkey = self.def_info(did);
        let mut o = J::obj().with("def", J::s(dkey));
        let kind = match inst.def {
            InstanceKind::Item(_) => "item",
            InstanceKind::Intrinsic(_) => "intrinsic",
            InstanceKind::Virtual(..) => "virtual",
            InstanceKind::FnPtrShim(..) => "fnptr_shim",
            InstanceKind::ClosureOnceShim { .. } => "closure_once_shim",
            InstanceKind::DropGlue(..) => "drop_glue",
            InstanceKind::CloneShim(..) => "clone_shim",
            InstanceKind::ReifyShim(..) => "reify_shim",
            _ => "other_shim",
        };
        o.set("kind", J::s(kind));
        let mut gargs = Vec::new();
        for a in inst.args.iter() {
            if let Some(t) = a.as_type() {
                let k = self.ty(t);
                gargs.push(J::obj().with("ty", J::s(k)));
            } else if let Some(c) = a.as_const() {
                let mut co = J::obj().with("const", J::s(format!("{}", c)));
                if let Some(v) = c.try_to_leaf() {
                    co.set("int", J::UInt(v.to_bits(v.size())));
                }
                gargs.push(co);
            }
        }
        o.set("generic_args", J::Arr(gargs));
        let has_mir = match inst.def {
            InstanceKind::Item(d) => {
                let dk = tcx.def_kind(d);
                matches!(dk, DefKind::Fn | DefKind::AssocFn | DefKind::Closure | DefKind::Ctor(..))
                    && tcx.is_mir_available(d)
                    && !tcx.is_foreign_item(d)
            }
            InstanceKind::Intrinsic(_) | InstanceKind::Virtual(..) => false,
            _ => true,
        };
        // core::arch leaves are modelled, not walked.
        let path = self.def_str(did);
        let is_arch_leaf = path.starts_with("core::core_arch") || path.starts_with("std_detect") || path.starts_with("std::arch::") || path.starts_with("core::arch::");
        if has_mir && !is_arch_leaf && self.instances.len() < self.max_instances {
            let body = tcx.instance_mir(inst.def);
            let b = self.body_json(inst, body);
            o.set("body", b);
        } else {
            o.set("body", J::Null);
            if is_arch_leaf {
                o.set("leaf", J::s("arch"));
            }
        }
        self.instances.push((key, o));
    }

    /// Enumerate the ppv-lite86 vocabulary of machine type `m` by trait elaboration.
    fn enumerate_machine(&mut self, m: Ty<'tcx>) {
        let tcx = self.tcx;
        let mkey = self.ty_str(m);
        if !self.machines_done.insert(mkey.clone()) {
            return;
        }
        // find trait `ppv_lite86::types::Machine`
        let mut machine_trait = None;
        for t in tcx.all_traits_including_private() {
            let p = self.def_str(t);
            if (p.ends_with("::Machine")) && tcx.crate_name(t.krate).as_str() == "ppv_lite86" {
                machine_trait = Some(t);
            }
        }
        let Some(mt) = machine_trait else { return };
        let mut count = 0usize;
        for item in tcx.associated_items(mt).in_definition_order() {
            if !item.is_type() {
                continue;
            }
            let assoc_did = item.def_id;
            let assoc_name = item.name().to_string();
            let proj = Ty::new_projection(tcx, assoc_did, [m]);
            let vty = tcx.normalize_erasing_regions(self.env, ty::Unnormalized::new(proj));
            let vkey = self.ty(vty);
            // bounds of the associated type with Self = M
            let mut stack: Vec<ty::TraitRef<'tcx>> = Vec::new();
            let margs = tcx.mk_args(&[m.into()]);
            for clause in tcx.explicit_item_bounds(assoc_did).iter_instantiated_copied(tcx, margs) {
                let (clause, _sp) = clause.skip_norm_wip();
                if let Some(tp) = clause.as_trait_clause() {
                    let tr = tp.skip_binder().trait_ref;
                    stack.push(tr);
                }
            }
            let mut seen_tr: HashSet<String> = HashSet::new();
            while let Some(tr) = stack.pop() {
                let tr = tcx.normalize_erasing_regions(self.env, ty::Unnormalized::new(tr));
                let trs = with_no_visible_paths!(with_no_trimmed_paths!(format!("{}", tr)));
                if !seen_tr.insert(trs.clone()) {
                    continue;
                }
                // supertraits
                for (clause, _sp) in tcx
                    .explicit_super_predicates_of(tr.def_id)
                    .iter_instantiated_copied(tcx, tr.args)
                    .map(|c| c.skip_norm_wip())
                {
                    if let Some(tp) = clause.as_trait_clause() {
                        stack.push(tp.skip_binder().trait_ref);
                    }
                }
                let trait_path = self.def_str(tr.def_id);
                let trait_krate = tcx.crate_name(tr.def_id.krate).to_string();
                for it in tcx.associated_items(tr.def_id).in_definition_order() {
                    if !it.is_fn() {
                        continue;
                    }
                    let mdid = it.def_id;
                    // skip methods with their own generic parameters (e.g. Into::into has none;
                    // Iterator adaptors do) and methods of marker std traits
                    if tcx.generics_of(mdid).own_params.len() > 0 {
                        continue;
                    }
                    if matches!(trait_path.as_str(), "core::marker::Copy" | "core::marker::Sized") {
                        continue;
                    }
                    let mname = it.name().to_string();
                    let res = Instance::try_resolve(tcx, self.env, mdid, tr.args);
                    let mut rec = J::obj()
                        .with("machine", J::s(mkey.clone()))
                        .with("assoc", J::s(assoc_name.clone()))
                        .with("vector_ty", J::s(vkey.clone()))
                        .with("trait", J::s(trs.clone()))
                        .with("trait_def", J::s(trait_path.clone()))
                        .with("trait_krate", J::s(trait_krate.clone()))
                        .with("method", J::s(mname));
                    match res {
                        Ok(Some(inst)) => {
                            rec.set("inst", J::s(self.inst_key(inst)));
                            self.enqueue(inst);
                        }
                        _ => {
                            rec.set("inst", J::Null);
                        }
                    }
                    self.vocab.push(rec);
                    count += 1;
                }
            }
        }
        let _ = count;
    }
}

pub fn run<'tcx>(tcx: TyCtxt<'tcx>, out_dir: &str) {
    let env = TypingEnv::fully_monomorphized();
    let crate_name = tcx.crate_name(LOCAL_CRATE).to_string();
    let mut cx = Ctx {
        tcx,
        env,
        types: BTreeMap::new(),
        defs: BTreeMap::new(),
        instances: Vec::new(),
        seen: HashSet::new(),
        queue: VecDeque::new(),
        vocab: Vec::new(),
        roots: Vec::new(),
        machines_done: HashSet::new(),
        allocs: BTreeMap::new(),
        max_instances: 200_000,
    };
    let _ = &cx.allocs;

    // ---- local inventory: statics, unsafe impls, items ----
    let mut statics = Vec::new();
    let mut unsafe_impls = Vec::new();
    let mut items = Vec::new();
    for id in tcx.hir_crate_items(()).definitions() {
        let did = id.to_def_id();
        let dk = tcx.def_kind(did);
        match dk {
            DefKind::Static { mutability, nested, .. } => {
                let ty = tcx.type_of(did).instantiate_identity().skip_norm_wip();
                let freeze = ty.is_freeze(tcx, env);
                let tk = cx.ty_str(ty);
                let attrs = tcx.codegen_fn_attrs(did);
                let tls = attrs.flags.contains(rustc_middle::middle::codegen_fn_attrs::CodegenFnAttrFlags::THREAD_LOCAL);
                statics.push(
                    J::obj()
                        .with("def", J::s(cx.def_str(did)))
                        .with("ty", J::s(tk))
                        .with("mutable", J::Bool(mutability.is_mut()))
                        .with("nested", J::Bool(nested))
                        .with("freeze", J::Bool(freeze))
                        .with("thread_local", J::Bool(tls))
                        .with("span", span_json(tcx, tcx.def_span(did))),
                );
            }
            DefKind::Impl { of_trait: true } => {
                let tr = tcx.impl_trait_ref(did).skip_binder();
                let header = tcx.impl_trait_header(did);
                let is_unsafe = !header.safety.is_safe();
                let trp = cx.def_str(tr.def_id);
                if is_unsafe || trp.ends_with("::Send") || trp.ends_with("::Sync") {
                    unsafe_impls.push(
                        J::obj()
                            .with("trait", J::s(trp))
                            .with("self_ty", J::s(with_no_visible_paths!(with_no_trimmed_paths!(format!("{}", tr.self_ty())))))
                            .with("unsafe", J::Bool(is_unsafe))
                            .with("span", span_json(tcx, tcx.def_span(did))),
                    );
                }
            }
            DefKind::Fn | DefKind::AssocFn => {
                let k = cx.def_info(did);
                let generic = tcx.generics_of(did).requires_monomorphization(tcx);
                items.push(J::obj().with("def", J::s(k)).with("generic", J::Bool(generic)));
                if !generic && tcx.is_mir_available(did) && !tcx.is_foreign_item(did) {
                    let inst = Instance::mono(tcx, did);
                    let key = cx.inst_key(inst);
                    cx.roots.push(J::obj().with("inst", J::s(key)).with("why", J::s("local_nongeneric")));
                    cx.enqueue(inst);
                }
            }
            _ => {}
        }
    }

    // ---- mono walk ----
    while let Some(inst) = cx.queue.pop_front() {
        // vocabulary marker
        let path = cx.def_str(inst.def_id());
        if path.ends_with("verif_machine_root") {
            if let Some(m) = inst.args.types().next() {
                cx.enumerate_machine(m);
            }
        }
        cx.emit_instance(inst);
    }

    let mut insts = J::obj();
    for (k, v) in cx.instances.drain(..) {
        insts.set(k, v);
    }
    let mut types = J::obj();
    for (k, v) in std::mem::take(&mut cx.types) {
        types.set(k, v);
    }
    let mut defs = J::obj();
    for (k, v) in std::mem::take(&mut cx.defs) {
        defs.set(k, v);
    }
    let out = J::obj()
        .with("crate", J::s(crate_name.clone()))
        .with("roots", J::Arr(std::mem::take(&mut cx.roots)))
        .with("items", J::Arr(items))
        .with("statics", J::Arr(statics))
        .with("unsafe_impls", J::Arr(unsafe_impls))
        .with("vocab", J::Arr(std::mem::take(&mut cx.vocab)))
        .with("defs", defs)
        .with("types", types)
        .with("instances", insts);
    let mut s = String::new();
    out.write(&mut s);
    let path = format!("{}/{}.json", out_dir, crate_name);
    std::fs::write(&path, s).expect("factgen: cannot write fact file");
}
