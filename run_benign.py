#!/usr/bin/env python3
"""False-alarm corpus: apply each behaviour-preserving refactoring in benign/*.diff to /repo, run all
20 quick checks, undo.  Every check must stay silent (exit 0).  Writes benign/RESULTS.json."""
import glob, json, os, subprocess, sys

def sh(cmd, cwd=None):
    return subprocess.run(cmd, shell=True, cwd=cwd, capture_output=True, text=True)

def main():
    only = sys.argv[1:] 
    if sh("git diff --quiet", "/repo").returncode:
        print("repo dirty"); return 2
    props = ["C%02d" % i for i in range(1, 21)]
    res = json.load(open("/verif/benign/RESULTS.json")) if only and os.path.exists("/verif/benign/RESULTS.json") else {}
    bad = 0
    for p in sorted(glob.glob("/verif/benign/*.diff")):
        name = os.path.basename(p)[:-5]
        if only and name not in only:
            continue
        if sh("git apply %s" % p, "/repo").returncode:
            res[name] = "patch does not apply"; print(name, "DOES NOT APPLY"); continue
        res[name] = {}
        for c in props:
            r = sh("timeout 1500 ./vcheck %s --tier quick" % c, "/verif")
            res[name][c] = r.returncode
            if r.returncode:
                bad += 1
                print(name, c, "FALSE ALARM", [l[:200] for l in r.stdout.splitlines() if l.startswith("  rule") or l.startswith("INCONCLUSIVE")][:3])
        sh("git checkout -- . && git clean -fdq -- .", "/repo")
        print(name, "done:", sum(1 for v in res[name].values() if v == 0), "silent of", len(props))
        json.dump(res, open("/verif/benign/RESULTS.json", "w"), indent=1)
    return 1 if bad else 0

if __name__ == "__main__":
    sys.exit(main())
