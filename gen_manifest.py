#!/usr/bin/env python3
"""Regenerates MANIFEST.json from the table below (kept in one place so that the manifest is
always schema-valid and lists every property exactly once)."""
import json

PROPS = [json.loads(l)["id"] for l in open("/verif/properties.jsonl")]

TV = "translation_validation"
CHECKS = {
    "C12": dict(level=TV, design="3/C12",
                text="Every (machine, vector type, trait method) instance required by the Machine bounds - enumerated by trait elaboration, 1005 entries over 4 distinct x86 machines and the portable one - is turned into a normalised bit-level value graph over symbolic operands and must be identical to the scalar definition of the operation; in-domain panics are violations. Decides the property for all operand values.",
                note="Trusted: hand-written models of 62 x86 intrinsics (Intel definitions), the bit-vector normalisation laws, rustc's MIR. SSE4.1 and AVX machines are the same types, so five of six backends are distinct.",
                technique="abstract interpretation of monomorphic MIR into hash-consed bit-level value graphs; normal-form identity against scalar definitions (translation validation)"),
    "C13": dict(level=TV, design="3/C13",
                text="Same engine as C12 for the data-movement half of the vocabulary (500 entries): lanes, storage conversions, insert/extract for every index, transpose4, to_scalars, LE/BE byte loads and stores; each must equal the little-endian flat-layout definition, which implies the round trips.",
                note="Trusted: intrinsic models, layout facts from rustc, normalisation laws. Round trips are implied by both directions being the identity on the flat layout; they are not checked as separate compositions.",
                technique="abstract interpretation of monomorphic MIR into bit-level value graphs; identity of normal forms with the flat little-endian definition"),
    "C19": dict(level=TV, design="3/C19",
                text="All 76 public methods of the five ppv-null types are compared as value graphs with lane-wise scalar definitions; rotation amounts and lane indices are split over their whole documented domain; any overflow/bounds Assert whose condition depends on operand values, or reachable panic call, is a violation (dev-profile MIR, so debug-only panics are included).",
                note="Trusted: normalisation laws, core models, rustc's MIR. Release builds have a subset of the dev build's panic sites.",
                technique="value-graph normalisation of MIR plus constant folding of every Assert condition"),
    "C09": dict(level=TV, design="3/C09",
                text="with_tweak + encrypt_block for symbolic key, tweak and block is evaluated to a value graph (all loop bounds are compile-time constants) and must be bit-for-bit identical to the graph of the Skein 1.3 definition written independently in spec/threefish.py (key schedule, 72/72/80 MIX rounds, rotation constants, word permutation, subkey injection, LE words); done for the unrolled build and for the no_unroll feature. Decides the property for all keys, tweaks and blocks. R10.2: encrypt_blocks / encrypt_par_blocks (and the decrypt twins) act on each block exactly as encrypt_block / decrypt_block, so the conformance carries over to every way the cipher traits run the cipher.",
                note="Trusted: spec/threefish.py (validated against NIST vectors in setup), normalisation laws, models of core slice/iterator functions, rustc's MIR.",
                technique="value-graph normalisation of MIR vs. an independently written reference (translation validation), two build configurations"),
    "C10": dict(level=TV, design="3/C10",
                text="decrypt(encrypt(b)) and encrypt(decrypt(b)) with the entire subkey array and the block as free symbols must normalise to b, for 3 sizes, both orders, unrolled and no_unroll builds. The laws x+k-k=x, x^y^y=x, rotr(rotl(x,r),r)=x cancel round by round. R10.2: decrypt_blocks / decrypt_par_blocks / encrypt_blocks / encrypt_par_blocks act block by block exactly as the single-block methods (a provided trait method that is overridden is analysed like any other code).",
                note="Trusted: normalisation laws, core models. Subkeys are free symbols, so the result holds for every key and tweak.",
                technique="value-graph normalisation: composition of the two MIR bodies reduces to the identity"),
    "C14": dict(level=TV, design="3/C14",
                text="refill4 and refill are evaluated through their run-time dispatch on a symbolic state (all arms followed, joined by if-then-else over free CPU-feature symbols) for double-round counts 0..10 (thorough; quick: 0,1,4,10) on the x86 and portable builds; outputs must equal the ChaCha block function at counter+0..3 with a 64-bit counter add that never touches the stream-id words, final states counter+4 / counter+1, and four refills must equal one refill4 in bytes and state. Operand-dependent overflow assertions are violations.",
                note="Trusted: spec/chacha.py (RFC 7539 vectors), intrinsic models, normalisation laws. Double-round counts are enumerated over the property's stated domain 0..=10, not treated symbolically. Big-endian twins of add_pos/d0123 are cfg'd out here and not analysed.",
                technique="value-graph normalisation of MIR incl. dispatch arms vs. reference block function"),
    "C15": dict(level=TV, design="3/C15",
                text="set/get_stream_param for param 0 and 1 on a symbolic state: exact state delta, round trip, isolation of the other parameter and key; stream32_eq/stream64_eq on two symbolic states must be exactly the canonical conjunction of the required word equalities. x86 and portable builds.",
                note="Trusted: normalisation laws (n-ary canonical AND, equality as conjunction of bit equalities). Only the valid parameters 0 and 1 are covered.",
                technique="value-graph normalisation; set-comparison of comparison atoms"),
    "C01": dict(level=TV, design="3/C01",
                text="State construction of all 7 aliases (incl. HChaCha with the alias's round count) on symbolic key/nonce, the block function at 4/6/10 double rounds through every dispatch arm, and the full try_apply_keystream pipeline of a fresh cipher on symbolic data for a set of request lengths (quick 1,65,321; thorough 10 lengths, both backends): result must be data XOR the specified keystream. Decides the per-block half of the property for all keys/nonces/data; position bookkeeping over arbitrary histories is C02.",
                note="Trusted: spec/chacha.py, intrinsic models, normalisation laws. Request lengths are a finite set (each covers all keys, nonces and data contents).",
                technique="value-graph normalisation of MIR vs. reference (translation validation)"),
    "C20": dict(level="other", design="3/C20",
                text="The type checker decides each point of each crate's declared feature lattice: cargo check on stable with --no-default-features --features <subset> for all 70 subsets (thorough) or empty/single/full sets (quick, 32 points). 'Features only select implementations' is discharged by reference to C03, C09 and C10, which compare every alternative implementation with one specification.",
                note="Trusted: rustc/cargo. Known findings (listed by lattice point): groestl-aesni without std, crypto-simd with packed_simd on stable. x86-64 host target only.",
                technique="type checking of every point of the feature lattice (cargo check), exit status per point"),
    "C16": dict(level="other", design="3/C16",
                text="Every monomorphic instance of workspace code reachable from the public API (4044 instances over the x86 and portable builds) is audited for unsafe memory operations: no alignment-requiring load/store intrinsic, no typed dereference / ptr::read / ptr::write through a pointer whose def chain starts at less aligned data, no pointer-to-integer conversion or address inspection, unions and transmutes of equal size without padding; the raw-pointer entry points (Groestl tf512/tf1024 x3 arms, JH f8 x5 machines) are evaluated by the pointer model on exact-size buffers where any out-of-buffer access is reported. Positive controls (fixtures/controls, short-buffer run) must fire on every run. The extent sweep also covers Threefish new / with_tweak / encrypt_block / decrypt_block on exact-size keys and blocks; raw copy_nonoverlapping is modelled with bounds.",
                note="Decides the property relative to the memory safety of safe Rust, core, block-buffer, generic-array and zerocopy. Alignment is decided structurally (which intrinsics / dereferences exist), not by trying addresses.",
                technique="MIR audit of unsafe operations with def-use chains + layout facts; abstract pointer model for extents"),
    "C18": dict(level="other", design="3/C18",
                text="Inventory of all statics of all workspace crates with classification (immutable / lazy_static fn-pointer cell whose initialiser only performs CPU-feature detection / forbidden), references to statics from API-reachable workspace code, absence of manual Send/Sync impls, and a type-level witness crate asserting Send + Sync for 26 public state types. No shared mutable state plus &mut exclusivity decides independence from thread and instance interleavings.",
                note="Trusted: std::sync::Once (lazy_static), std_detect's atomic cache, rustc's auto-trait and borrow checking. One-time initialisation itself is not re-verified.",
                technique="whole-workspace static/effect inventory over compiler item tables; who-may-call rule for lazy initialisers; compile-pass auto-trait witnesses"),
    "C04": dict(level=TV, design="3/C04",
                text="BLAKE compression function for every Machine instantiation and through the run-time dispatcher (symbolic chaining value, block, counter) equals the final-round specification with recomputed constants; Default gives the specified IVs; finalize_into_dirty is specialised to EVERY buffer position (64 resp. 128 per variant, 384 in all) with the compression function as an uninterpreted symbol on both sides and must feed exactly the specified padded blocks, counters and output truncation. Together with C17 (counter arithmetic) this decides the property for all messages. R4.6 end to end: Default -> update(chunk)* -> finalize_into_dirty through the real MIR with no hook on any function of the crate (all dispatch arms joined), on symbolic message bytes for lengths around 0..3 blocks in several chunkings, equals the specified BLAKE hash; R4.7 update feeds exactly the complete blocks with the double-word counter.",
                note="Trusted: spec/blake.py (validated against the submission vectors), models of core slice functions; block-buffer is interpreted from its real MIR. Message lengths beyond the format limit are outside the domain.",
                technique="value-graph normalisation of MIR vs reference; exhaustive case split over the buffer position (a selector the code only compares and indexes with)"),
    "C05": dict(level=TV, design="3/C05",
                text="UBI step, configuration block and initial tweak, the lazy final block (update on symbolic data for boundary position/length pairs), and finalize_into_dirty for every buffer position 0..=block size of seven instantiations (N = 1, 7, 32, 64, 128, 200; multi-block and odd outputs) are compared as value graphs with Skein 1.3, Threefish being the same uninterpreted symbol on both sides (decided separately by C09). R5.6 end to end (Default, update chunks, finalize = Skein hash with the real Threefish on both sides); 18 output-size instantiations.",
                note="Trusted: spec/skein.py (validated against the golden KATs), core models; block-buffer/block-padding interpreted from real MIR. Output sizes are type-level, so the named instantiations are covered, not all N.",
                technique="compositional value-graph normalisation (Threefish as uninterpreted function), exhaustive split over buffer positions"),
    "C06": dict(level=TV, design="3/C06",
                text="The bit-sliced F8 (f8_impl<M>, every Machine, and through the run-time dispatcher) is compared on a symbolic state and block with the nibble-oriented F8 of the JH specification (grouping, 42 rounds S/L/P8, constants generated by R6 from sqrt(2), de-grouping); the S-box layer is an uninterpreted function on both sides and the real bit-sliced `ss` is separately shown to be exactly S0/S1 on each of its 256 bit columns by complete truth tables; `l` equals the MDS map; initial values equal F8(H(-1),0) computed by the reference model; padding/length/truncation for every buffer position of all four variants. R6.8 end to end (Default, update chunks, finalize = JH hash; S-box layer uninterpreted on both sides).",
                note="Trusted: spec/jh.py (validated against the KATs), intrinsic models (bit-group swaps), normalisation laws. Unlike planned in the design, the bit-sliced/nibble equivalence and the constant tables are decided, not assumed.",
                technique="compositional value-graph normalisation (S-box layer uninterpreted + complete truth tables of the S-box layer), exhaustive split over buffer positions"),
    "C07": dict(level=TV, design="3/C07",
                text="Whole-chain value graphs new(h) -> input(m1)[-> input(m2)] -> finalize for the 512- and 1024-bit compressors, for each of the three dispatch arms, equal Omega(f(f(h,m1),m2)) of the Groestl specification with the AES S-box uninterpreted on both sides (MixBytes' GF(2^8) arithmetic, ShiftBytes, round constants and the transposed internal layout are compared bit-exactly); padding, block counting and truncation for every buffer position of all four hashers; IV; update's block counting on boundary cases. R7.7 end to end per dispatch arm (Default, update chunks, finalize = Groestl hash); arms are selected by pinning the CPU-detection results, the lazy_static dispatcher is interpreted from its MIR.",
                note="Trusted: spec/groestl.py (validated against KATs with the S-box computed from its definition), intrinsic models incl. AESENCLAST. Block counts are symbolic 64-bit values, so 'beyond 255 / 65535 blocks' is covered by the padding rule.",
                technique="compositional value-graph normalisation (S-box uninterpreted), exhaustive split over buffer positions"),
    "C08": dict(level="other", design="3/C08",
                text="State types are plain owned data (recursive type-shape walk, 19 instantiations), clone is the bitwise identity and reset equals Default on a fully symbolic prior state (value graphs), and update(update(s,a),b) leaves the same state as update(s,a++b) for symbolic contents over boundary buffer positions and length pairs (108 compositions per type, per-block functions uninterpreted). With finalisation a function of the state (C04-C07) and no shared state (C18) this gives chunking, clone and reset invariance. Thorough: buffer positions {0, 1, 17, bs/2, bs-1} x piece lengths incl. pieces of more than 4 and 8 blocks (405 compositions per type).",
                note="Chunk lengths are a finite boundary family (0, 1, block-1, block, block+1, many blocks) per buffer position; block-buffer is interpreted from its real MIR, so its dependence on lengths is what is being exercised.",
                technique="type-shape analysis + value-graph comparison of state transformers (composition vs. concatenation)"),
    "C17": dict(level=TV, design="3/C17",
                text="All length/bit/block counters are symbolic full-width words in the update and finalisation value graphs of the four hash families: BLAKE's double-word bit counter with carry, Skein's byte tweak, Groestl's block counter and final count, JH's byte length and 64-bit bit-length field - so exactness holds across every word boundary, not just the sampled ones. Plus a def-use taint rule: no narrowing integer cast on a slice length or counter field anywhere in the hash crates, and 64-bit counter field types. Counter fields are recognised by type (integer or pair of words next to the block buffer / in Skein's State); the taint follows checked-arithmetic pairs. Thorough: the finalisation rules for every buffer position; update rules include a mid-buffer position and pieces of more than 4 and 8 blocks.",
                note="Per-block functions are uninterpreted here (C04-C07 decide them for symbolic counters). Format limits (counter overflow beyond 2^64 etc.) are outside the domain.",
                technique="value-graph normalisation with symbolic counters + MIR def-use taint (narrowing casts)"),
    "C03": dict(level="other", design="3/C03",
                text="Value level: ChaCha refill/refill4, the BLAKE-256/512 compression dispatcher and JH f8 are evaluated THROUGH their dispatchers on symbolic inputs in every build configuration - std run-time dispatch with all arms joined over free CPU-detection symbols, no_simd portable, and (thorough) five no-std builds with compile-time features sse2..avx2 - and must equal the one reference definition, hence each other; no arm may contain an operand-dependent panic. Structure: feature adequacy of all 39 run-time arms (required <= enabled <= implied by dominating detection), one fn_impl body per site with positional forwarding, Machine::instance() only in arms and only via unsafe (compile_fail witness). R3.6: the Machine-generic bodies instantiated for several backends (from the instance graph alone) must be exactly the bodies of the recognised dispatch sites (sites/arms/bodies are found structurally, not by macro-internal names).",
                note="Vocabulary-level equality per backend is C12/C13. SSE4.1 and AVX machines are the same types. Groestl's private dispatcher is not a ppv-lite86 backend and is not covered here. Big-endian cfg twins are not compiled on this target.",
                technique="value graphs through dispatchers in 7 configurations + target-feature dataflow over the mono call graph with dominators"),
    "C02": dict(level="other", design="3/C02",
                text="Bounded-history value graphs: for a finite family of seek/apply/current_pos histories around all the boundaries the property names (mid-block seeks, block edges, the low counter word's carry, the end of the 32-bit keystream, the top of the u64 range; re-seeking, repeated positions, requests after a failed request) every processed byte equals data XOR keystream[absolute position] for symbolic key/nonce/data, try_current_pos equals the absolute position after every step, the key and nonce words never change, and no overflow/bounds assertion or panic call is reachable (dev-profile MIR, so debug-only panics count). try_seek::<T> for all 7 SeekNum types x boundary values. The Buffer logic is interpreted from its real MIR; only refill/refill4 are replaced by their C14 semantics. Request lengths include tails of exactly 3 and 7 whole blocks after the 256-byte chunks (192, 448).",
                note="Sentence 1 of the property for ARBITRARY histories is not decided: that needs an inductive invariant over unbounded histories, which is outside this technique. The family is finite in operation sequences (quick ~520, thorough ~9000), complete in contents.",
                technique="abstract interpretation of the real buffering code over symbolic contents for an enumerated family of operation sequences (positions/lengths are the case-split selectors)"),
    "C11": dict(level="other", design="3/C11",
                text="Same engine on histories around the limits: requests crossing 2^38 bytes on the IETF cipher fail with the data graph, the reported position and later behaviour unchanged; requests and seeks ending exactly at the limit succeed; try_seek past the end is LoopError for every SeekNum type; the counter's carry never reaches nonce / stream-id words (state invariant after every step, all 7 aliases in thorough); 64-bit variants serve every u64 position and report OverflowError only for positions that do not fit the requested type. The family includes short requests (1, 2, 30, 63 bytes) after unaligned seeks into the last two blocks.",
                note="Finite family of histories (symbolic contents); 'exactly 2^38 bytes over arbitrary histories' is not decided. The four genuine defects this check found (panic in seek32, counter carry into the nonce, len underflow, unimplemented current_pos) are fixed in /repo.",
                technique="abstract interpretation over an enumerated family of operation sequences + state invariant"),
}

REASONS = {}

m = {
    "version": 1,
    "setup_cmd": "cd /verif/factgen && CARGO_NET_OFFLINE=true cargo build --offline 2>&1 | tail -3 && cd /verif && python3 -m spec.selftest && python3 -m engine.bvtest 300 11",
    "hooks": {
        "guard": "cryptocorrosion_verif",
        "enable": "none needed: the checks are static analyses of /repo's working tree (rustc_private fact extractor under `cargo +nightly check`); no instrumentation is compiled into the repository",
        "baseline_off_cmd": "cd /repo && cargo test --workspace --no-fail-fast --offline",
        "source_commits": [],
        "add_only": True,
    },
    "engines": [
        {"name": "E0 factgen", "path": "factgen/", "serves_properties": PROPS,
         "kind_free_text": "rustc_private driver (RUSTC_WRAPPER) dumping monomorphic MIR, call graph, layouts, target features, statics, Machine vocabulary by trait elaboration"},
        {"name": "E2 value graphs", "path": "engine/interp.py, engine/bv.py, engine/models.py, spec/", "serves_properties": sorted(CHECKS),
         "kind_free_text": "abstract interpreter of MIR over hash-consed bit-level terms; comparison of normal forms with reference definitions"},
    ],
    "checks": [],
    "not_applicable": [],
    "notes": "Fixes of genuine defects are 'fix:' commits in /repo, listed with status=fixed in known_findings.json; see DESIGN.md.",
}
for p in PROPS:
    if p in CHECKS:
        c = CHECKS[p]
        m["checks"].append({
            "property_id": p,
            "quick_cmd": "./vcheck %s --tier quick" % p,
            "thorough_cmd": "./vcheck %s --tier thorough" % p,
            "evidence_file": "/verif/evidence/%s.json" % p,
            "replay_cmd_template": "./vcheck %s --replay {path}" % p,
            "engine": "E0+E2" if c["level"] == TV else "E0+E1",
            "level_claimed": {"category": c["level"], "text": c["text"], "design_ref": c["design"]},
            "level_note": c["note"],
            "technique": c["technique"],
        })
    else:
        m["not_applicable"].append({"property_id": p, "reason": REASONS.get(p, "check not built yet (build phase in progress; see DESIGN.md section 7)")})
json.dump(m, open("/verif/MANIFEST.json", "w"), indent=1)
print("manifest: %d checks, %d not applicable" % (len(m["checks"]), len(m["not_applicable"])))
