#!/usr/bin/env python3
"""Apply every stored seeded change to /repo in turn, run the check of the property it breaks (and any
extra checks named on the command line), undo it, and record which checks caught it.
usage: run_seeds.py [seed-name-prefix] [--also C01,C14]"""
import json, os, subprocess, sys

VERIF = "/verif"
REPO = "/repo"


def sh(cmd, cwd=None):
    return subprocess.run(cmd, shell=True, cwd=cwd, capture_output=True, text=True)


def main():
    prefix = sys.argv[1] if len(sys.argv) > 1 and not sys.argv[1].startswith("--") else ""
    also = []
    if "--also" in sys.argv:
        also = sys.argv[sys.argv.index("--also") + 1].split(",")
    if sh("git diff --quiet", REPO).returncode != 0:
        print("repo dirty"); return 2
    res_path = os.path.join(VERIF, "seeded", "RESULTS.json")
    results = json.load(open(res_path)) if os.path.exists(res_path) else {}
    for name in sorted(os.listdir(os.path.join(VERIF, "seeded"))):
        d = os.path.join(VERIF, "seeded", name)
        if not os.path.isdir(d) or not name.startswith(prefix):
            continue
        meta = json.load(open(os.path.join(d, "meta.json")))
        prop = meta["property"]
        a = sh("git apply --3way %s/patch.diff" % d, REPO)
        if a.returncode != 0:
            a = sh("git apply %s/patch.diff" % d, REPO)
        if a.returncode != 0:
            results[name] = {"property": prop, "applies": False, "note": a.stderr[-300:]}
            sh("git checkout -- . && git reset -q", REPO)
            print(name, "PATCH DOES NOT APPLY")
            continue
        entry = {"property": prop, "applies": True, "checks": {}}
        for c in [prop] + [x for x in also + meta.get("also_checks", []) if x != prop]:
            r = sh("./vcheck %s --tier quick" % c, VERIF)
            lines = [l for l in r.stdout.splitlines() if l.startswith("  rule ") or l.startswith("INCONCLUSIVE")]
            definite = [l for l in lines if l.startswith("  rule ")]
            entry["checks"][c] = {"exit": r.returncode, "definite_violations": len(definite),
                                  "inconclusive": len(lines) - len(definite), "first": (definite or lines or [""])[0][:300]}
            print(name, c, "exit", r.returncode, "definite", len(definite), "inconclusive", len(lines) - len(definite))
        sh("git reset -q && git checkout -- . && git clean -fdq -- .", REPO)
        results[name] = entry
        json.dump(results, open(res_path, "w"), indent=1)
    return 0


if __name__ == "__main__":
    sys.exit(main())
