#!/bin/bash
# usage: refactor_test.sh <patch.diff> [checks...]: apply a behaviour-preserving refactoring to /repo, run checks
# (default all 20, quick), undo.  Any non-zero exit is a FALSE ALARM.
PATCH="$1"; shift
CHECKS="${@:-C01 C02 C03 C04 C05 C06 C07 C08 C09 C10 C11 C12 C13 C14 C15 C16 C17 C18 C19 C20}"
cd /repo; git diff --quiet || { echo "repo dirty"; exit 2; }
git apply "$PATCH" || { echo "patch does not apply"; exit 2; }
for c in $CHECKS; do
  out=$(cd /verif && ./vcheck $c --tier quick 2>&1); rc=$?
  if [ $rc -ne 0 ]; then echo "FALSE ALARM $c:"; echo "$out" | grep -E "^  rule|^INCONCLUSIVE" | cut -c1-300 | head -6; else echo "$c silent"; fi
done
git -C /repo checkout -- . ; git -C /repo clean -fdq -- .
