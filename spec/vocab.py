"""Scalar meaning of the ppv-lite86 vocabulary (properties C12/C13), written from the names and
the naming scheme documented in types.rs: uN[xP]xL = N-bit words, 128-bit lanes, little-endian
flat layout (word i at bits [i*N, (i+1)*N), lane j at bits [128j, 128j+128)).

Every function takes/returns flat bit-vectors of bv.py.
"""
import re

from engine import bv


def shape_of(assoc):
    """'u32x4x2' -> (word bits, total bits)"""
    m = re.fullmatch(r"u(\d+)x(\d+)(?:x(\d+))?", assoc)
    w, a, b = int(m.group(1)), int(m.group(2)), int(m.group(3) or 1)
    return w, w * a * b


def words(x, w):
    return [x[i:i + w] for i in range(0, len(x), w)]


def cat(ws):
    return bv.concat(ws)


def map_words(x, w, f):
    return cat(f(v) for v in words(x, w))


def add(x, y, w):
    return cat(bv.add(a, b) for a, b in zip(words(x, w), words(y, w)))


def rotr_each(x, w, n):
    return map_words(x, w, lambda v: bv.rotr(v, n))


def bswap_each(x, w):
    return map_words(x, w, bv.bswap)


def shuffle_words(x, w, digits, span):
    """Within each `span`-bit group of four w-bit words, send word i to position digits[i]."""
    out = []
    for g in words(x, span):
        ws = words(g, w)
        o = [None] * 4
        for i, d in enumerate(digits):
            o[d] = ws[i]
        out.append(cat(o))
    return cat(out)


def swap_groups(x, n):
    """Exchange adjacent n-bit groups."""
    gs = words(x, n)
    out = []
    for i in range(0, len(gs), 2):
        out.append(gs[i + 1])
        out.append(gs[i])
    return cat(out)


def transpose4(a, b, c, d):
    """Each argument: four 128-bit lanes.  Result i = (a_i, b_i, c_i, d_i)."""
    la, lb, lc, ld = (words(v, 128) for v in (a, b, c, d))
    return [cat([la[i], lb[i], lc[i], ld[i]]) for i in range(4)]


ROT_RE = re.compile(r"rotate_each_word_right(\d+)$")
SHUF_RE = re.compile(r"shuffle(?:_lane_words)?(\d)(\d)(\d)(\d)$")
SWAP_RE = re.compile(r"swap(\d+)$")

# which property a vocabulary method belongs to
C12_METHODS = {"add", "add_assign", "bitxor", "bitand", "bitor", "not", "andnot", "bitxor_assign",
               "bitand_assign", "bitor_assign", "bswap"}
C13_METHODS = {"to_lanes", "from_lanes", "unpack", "into", "extract", "insert", "transpose4", "to_scalars",
               "unsafe_read_le", "unsafe_read_be", "write_le", "write_be", "clone", "clone_from", "from",
               "unsafe_from"}


def property_of(method):
    if method in C12_METHODS or ROT_RE.match(method) or SHUF_RE.match(method) or SWAP_RE.match(method):
        return "C12"
    if method in C13_METHODS:
        return "C13"
    return None
