"""Validates the reference definitions (the oracles) against published test vectors.
Runs only code under /verif (the specs evaluated on constant bit-vectors); never the repository's."""
import os
import sys

sys.path.insert(0, os.path.dirname(os.path.dirname(os.path.abspath(__file__))))
from engine import bv


def cbytes(b):
    return bv.const(int.from_bytes(b, "little"), 8 * len(b))


def to_bytes(x):
    v = bv.const_value(x)
    assert v is not None, "spec did not constant-fold"
    return v.to_bytes(len(x) // 8, "little")


def check(name, got, want):
    ok = got == want
    print("  %-40s %s" % (name, "ok" if ok else "MISMATCH\n    got  %s\n    want %s" % (got.hex(), want.hex())))
    return ok


def main():
    ok = True
    # ---- ChaCha20 block, RFC 7539 section 2.3.2
    from spec import chacha as CH
    key = bytes(range(32))
    nonce = bytes.fromhex("000000090000004a00000000")
    kw = CH.words32(cbytes(key))
    d = [bv.const(1, 32)] + CH.words32(cbytes(nonce))
    want = bytes.fromhex("10f1e7e4d13b5915500fdd1fa32071c4c7d1f4c733c068030422aa9ac3d46c4e"
                         "d2826446079faa0914c2d705d98b02a2b5129cd1de164eb9cbd083e8a2503c4e")
    ok &= check("ChaCha20 block (RFC 7539 2.3.2)", to_bytes(CH.block(kw, d, 10)), want)
    # HChaCha20, draft-irtf-cfrg-xchacha section 2.2.1
    key = bytes.fromhex("000102030405060708090a0b0c0d0e0f101112131415161718191a1b1c1d1e1f")
    n16 = bytes.fromhex("000000090000004a0000000031415927")
    sub = CH.hchacha(CH.words32(cbytes(key)), CH.words32(cbytes(n16)), 10)
    want = bytes.fromhex("82413b4227b27bfed30e42508a877d73a0f9e4d58a74a853c12ec41326d3ecdc")
    ok &= check("HChaCha20 (draft-irtf-cfrg-xchacha 2.2.1)", to_bytes(bv.concat(sub)), want)
    # ---- Threefish, NIST submission KATs (zero key / tweak / block)
    from spec import threefish as TF
    for nw, want in ((4, "84da2a1f8beaee947066ae3e3103f1ad536db1f4a1192495116b9f3ce6133fd8"),
                     (8, "b1a2bbc6ef6025bc40eb3822161f36e375d1bb0aee3186fbd19e47c5d479947b"
                         "7bc2f8586e35f0cff7e7f03084b0b7b1f1ab3961a580a3e97eb41ea14a6d7bbe"),
                     (16, "f05c3d0a3d05b304f785ddc7d1e036015c8aa76e2f217b06c6e1544c0bc1a90d"
                          "f0accb9473c24e0fd54fea68057f43329cb454761d6df5cf7b2e9b3614fbd5a2"
                          "0b2e4760b40603540d82eabc5482c171c832afbe68406bc39500367a592943fa"
                          "9a5b4a43286ca3c4cf46104b443143d560a4b230488311df4feef7e1dfe8391e")):
        z = cbytes(bytes(nw * 8))
        got = to_bytes(TF.encrypt(nw, z, bv.const(0, 64), bv.const(0, 64), z))
        ok &= check("Threefish-%d zero vector" % (nw * 64), got, bytes.fromhex(want))
    # Threefish-512 with key/tweak/plaintext pattern from the Skein 1.3 reference KAT
    key = bytes(range(0x10, 0x50))
    pt = bytes(range(0xff, 0xbf, -1))
    got = to_bytes(TF.encrypt(8, cbytes(key), bv.const(0x0706050403020100, 64), bv.const(0x0f0e0d0c0b0a0908, 64), cbytes(pt)))
    want = bytes.fromhex("e304439626d45a2cb401cad8d636249a6338330eb06d45dd8b36b90e97254779"
                         "272a0a8d99463504784420ea18c9a725af11dffea10162348927673d5c1caf3d")
    ok &= check("Threefish-512 keyed vector", got, want)
    for mod in ("blake", "skein", "jh", "groestl"):
        try:
            m = __import__("spec." + mod, fromlist=["selftest"])
        except ImportError:
            continue
        if hasattr(m, "selftest"):
            ok &= m.selftest(check)
    print("spec selftest: ok" if ok else "spec selftest: FAILED")
    return 0 if ok else 1


if __name__ == "__main__":
    sys.exit(main())
