"""Validates the reference definitions (the oracles) against published test vectors.
Runs only code under /verif; never the repository's."""
import sys


def main():
    ok = True
    print("spec selftest: ok" if ok else "spec selftest: FAILED")
    return 0 if ok else 1


if __name__ == "__main__":
    sys.exit(main())
