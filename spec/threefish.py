"""Threefish-256/512/1024 as defined in "The Skein Hash Function Family" v1.3 (section 3.3),
parametric in the arithmetic domain of engine/bv.py: with symbolic inputs it yields the reference
value graph, with constant inputs it constant-folds to the concrete result (used by selftest)."""
from engine import bv

C240 = 0x1BD11BDAA9FC1A22

# Table 4 of the Skein 1.3 paper: rotation constants R[d mod 8][j]
R = {
    4: [[14, 16], [52, 57], [23, 40], [5, 37], [25, 33], [46, 12], [58, 22], [32, 32]],
    8: [[46, 36, 19, 37], [33, 27, 14, 42], [17, 49, 36, 39], [44, 9, 54, 56],
        [39, 30, 34, 24], [13, 50, 10, 17], [25, 29, 39, 43], [8, 35, 56, 22]],
    16: [[24, 13, 8, 47, 8, 17, 22, 37], [38, 19, 10, 55, 49, 18, 23, 52],
         [33, 4, 51, 13, 34, 41, 59, 17], [5, 20, 48, 41, 47, 28, 16, 25],
         [41, 9, 37, 31, 12, 47, 44, 30], [16, 34, 56, 51, 4, 53, 42, 41],
         [31, 44, 47, 46, 19, 42, 44, 25], [9, 48, 35, 52, 23, 31, 37, 20]],
}
# Table 3: word permutation pi(i); v_{d+1,i} = f_{d,pi(i)}
PI = {
    4: [0, 3, 2, 1],
    8: [2, 1, 4, 7, 6, 5, 0, 3],
    16: [0, 9, 2, 13, 6, 11, 4, 15, 10, 7, 12, 3, 14, 5, 8, 1],
}
ROUNDS = {4: 72, 8: 72, 16: 80}


def le_words(bytes_bv, w=64):
    """flat little-endian byte string (BV) -> list of w-bit words"""
    return [bytes_bv[i:i + w] for i in range(0, len(bytes_bv), w)]


def subkeys(nw, key_words, t0, t1):
    k = list(key_words)
    x = bv.const(C240, 64)
    for kw in key_words:
        x = bv.xor(x, kw)
    k.append(x)
    t = [t0, t1, bv.xor(t0, t1)]
    nr = ROUNDS[nw]
    ks = []
    for s in range(nr // 4 + 1):
        row = []
        for i in range(nw):
            v = k[(s + i) % (nw + 1)]
            if i == nw - 3:
                v = bv.add(v, t[s % 3])
            elif i == nw - 2:
                v = bv.add(v, t[(s + 1) % 3])
            elif i == nw - 1:
                v = bv.add(v, bv.const(s, 64))
            row.append(v)
        ks.append(row)
    return ks


def encrypt_words(nw, ks, v):
    nr = ROUNDS[nw]
    v = list(v)
    for d in range(nr):
        if d % 4 == 0:
            v = [bv.add(a, b) for a, b in zip(v, ks[d // 4])]
        f = [None] * nw
        for j in range(nw // 2):
            x0, x1 = v[2 * j], v[2 * j + 1]
            y0 = bv.add(x0, x1)
            y1 = bv.xor(bv.rotl(x1, R[nw][d % 8][j]), y0)
            f[2 * j], f[2 * j + 1] = y0, y1
        v = [f[PI[nw][i]] for i in range(nw)]
    return [bv.add(a, b) for a, b in zip(v, ks[nr // 4])]


def encrypt(nw, key_bytes, t0, t1, block_bytes):
    """All byte strings are flat BVs (byte 0 first); returns the ciphertext bytes as flat BV."""
    ks = subkeys(nw, le_words(key_bytes), t0, t1)
    return bv.concat(encrypt_words(nw, ks, le_words(block_bytes)))
