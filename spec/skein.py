"""Skein-256/512/1024 simple hashing (Skein 1.3, sections 3.4-3.5): UBI chaining over Threefish,
configuration block, message blocks with the last one flagged final and zero padded, output in
counter mode.  Parametric in the arithmetic domain of engine/bv.py and in the block cipher
`tf(key_bytes, t0, t1, block_bytes) -> block_bytes` (the real spec/threefish.py or an
uninterpreted symbol in modular mode)."""
from engine import bv
from spec import threefish as TF

T1_FIRST = 1 << 62
T1_FINAL = 1 << 63
TYPE_CFG = 4 << 56
TYPE_MSG = 48 << 56
TYPE_OUT = 63 << 56
SCHEMA = int.from_bytes(b"SHA3", "little") | (1 << 32)      # identifier "SHA3", version 1


def real_tf(nb):
    nw = nb // 8

    def tf(key, t0, t1, block):
        return TF.encrypt(nw, key, t0, t1, block)
    return tf


def c64(x):
    return bv.const(x, 64)


def cbytes(bs):
    return bv.const(int.from_bytes(bs, "little"), 8 * len(bs))


def ubi_block(tf, g, t0, t1, block):
    """One UBI step: G' = TF(G, tweak, M) xor M."""
    return bv.xor(tf(g, t0, t1, block), block)


def config_block(nb, out_bytes):
    cfg = SCHEMA.to_bytes(8, "little") + (8 * out_bytes).to_bytes(8, "little") + bytes(8)
    return cbytes(cfg + bytes(nb - len(cfg)))


def initial_state(tf, nb, out_bytes):
    g0 = bv.const(0, 8 * nb)
    return ubi_block(tf, g0, c64(32), c64(T1_FIRST | T1_FINAL | TYPE_CFG), config_block(nb, out_bytes))


def final_message_block(tf, nb, x, t0, t1, buf, p):
    """The held-back last block: p buffered bytes, zero padded; t0 counts the bytes before it."""
    block = buf[:8 * p] + bv.const(0, 8 * (nb - p))
    t0n = bv.add(t0, c64(p))
    t1n = bv.or_(t1, c64(T1_FINAL))
    return ubi_block(tf, x, t0n, t1n, block)


def output(tf, nb, x, out_bytes):
    out = ()
    nblocks = (out_bytes + nb - 1) // nb
    for i in range(nblocks):
        ctr = cbytes(i.to_bytes(8, "little") + bytes(nb - 8))
        o = ubi_block(tf, x, c64(8), c64(T1_FIRST | T1_FINAL | TYPE_OUT), ctr)
        out += o
    return out[:8 * out_bytes]


def hash_bytes(nb, out_bytes, msg):
    tf = real_tf(nb)
    x = initial_state(tf, nb, out_bytes)
    t0 = 0
    t1 = T1_FIRST | TYPE_MSG
    # all blocks but the last
    blocks = [msg[i:i + nb] for i in range(0, len(msg), nb)] or [b""]
    for b in blocks[:-1]:
        t0 += nb
        x = ubi_block(tf, x, c64(t0), c64(t1), cbytes(b))
        t1 &= ~T1_FIRST
    last = blocks[-1]
    x = final_message_block(tf, nb, x, c64(t0), c64(t1), cbytes(last + bytes(nb - len(last))), len(last))
    return bv.const_value(output(tf, nb, x, out_bytes)).to_bytes(out_bytes, "little")


def selftest(check):
    ok = True
    # Skein 1.3 reference KATs (skein_golden_kat_short): one byte 0xFF
    ok &= check("Skein-256-256(ff)", hash_bytes(32, 32, b"\xff"),
                bytes.fromhex("0b98dcd198ea0e50a7a244c444e25c23da30c10fc9a1f270a6637f1f34e67ed2"))
    ok &= check("Skein-512-512(ff)", hash_bytes(64, 64, b"\xff"),
                bytes.fromhex("71b7bce6fe6452227b9ced6014249e5bf9a9754c3ad618ccc4e0aae16b316cc8"
                              "ca698d864307ed3e80b6ef1570812ac5272dc409b5a012df2a579102f340617a"))
    ok &= check("Skein-1024-1024(ff)", hash_bytes(128, 128, b"\xff"),
                bytes.fromhex("e62c05802ea0152407cdd8787fda9e35703de862a4fbc119cff8590afe79250b"
                              "ccc8b3faf1bd2422ab5c0d263fb2f8afb3f796f048000381531b6f00d85161bc"
                              "0fff4bef2486b1ebcd3773fabf50ad4ad5639af9040e3f29c6c931301bf79832"
                              "e9da09857e831e82ef8b4691c235656515d437d2bda33bcec001c67ffde15ba8"))
    return ok
