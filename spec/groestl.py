"""Groestl-224/256/384/512 (SHA-3 finalist specification, Gauravaram et al., 2011), parametric in
the arithmetic domain of engine/bv.py and in the S-box (`sbox(byte) -> byte`): the real AES S-box
for the self-test, an uninterpreted symbol in value-graph mode.

State: 8 rows x (8|16) columns of bytes; byte i of the input goes to row i mod 8, column i div 8.
"""
from engine import bv

SHIFT = {
    (8, "P"): [0, 1, 2, 3, 4, 5, 6, 7],
    (8, "Q"): [1, 3, 5, 7, 0, 2, 4, 6],
    (16, "P"): [0, 1, 2, 3, 4, 5, 6, 11],
    (16, "Q"): [1, 3, 5, 11, 0, 2, 4, 6],
}
MIX = [2, 2, 3, 4, 5, 3, 5, 7]
ROUNDS = {8: 10, 16: 14}


def aes_sbox_table():
    """AES S-box computed from its definition (inverse in GF(2^8)/0x11b followed by the affine map)."""
    def mul(a, b):
        r = 0
        while b:
            if b & 1:
                r ^= a
            a <<= 1
            if a & 0x100:
                a ^= 0x11b
            b >>= 1
        return r
    inv = [0] * 256
    for x in range(1, 256):
        for y in range(1, 256):
            if mul(x, y) == 1:
                inv[x] = y
                break
    box = []
    for x in range(256):
        b = inv[x]
        r = b
        for s in range(1, 5):
            r ^= ((b << s) | (b >> (8 - s))) & 0xff
        box.append(r ^ 0x63)
    return box


_SBOX = None


def real_sbox(b):
    global _SBOX
    if _SBOX is None:
        _SBOX = aes_sbox_table()
    v = bv.const_value(b)
    assert v is not None
    return bv.const(_SBOX[v], 8)


def ufn_sbox(b):
    return bv.ufn("AES_S", (b,), 8)


def xtime(b):
    """multiply by 2 in GF(2^8) modulo x^8+x^4+x^3+x+1"""
    hi = b[7]
    sh = (bv.ZERO,) + b[:7]
    red = tuple(hi if i in (0, 1, 3, 4) else bv.ZERO for i in range(8))
    return bv.xor(sh, red)


def gmul(b, k):
    """multiply a byte by the small constant k (2..7)"""
    r = bv.const(0, 8)
    p = b
    while k:
        if k & 1:
            r = bv.xor(r, p)
        p = xtime(p)
        k >>= 1
    return r


def to_matrix(bytes_flat, cols):
    """flat byte string -> matrix[row][col] of byte BVs"""
    bs = [bytes_flat[8 * i:8 * i + 8] for i in range(8 * cols)]
    return [[bs[8 * c + r] for c in range(cols)] for r in range(8)]


def from_matrix(m, cols):
    return bv.concat(m[r][c] for c in range(cols) for r in range(8))


def perm(m, cols, which, sbox):
    for rnd in range(ROUNDS[cols]):
        # AddRoundConstant
        n = [[m[r][c] for c in range(cols)] for r in range(8)]
        for c in range(cols):
            if which == "P":
                n[0][c] = bv.xor(n[0][c], bv.const((c << 4) ^ rnd, 8))
            else:
                for r in range(8):
                    n[r][c] = bv.xor(n[r][c], bv.const(0xff, 8))
                n[7][c] = bv.xor(n[7][c], bv.const((c << 4) ^ rnd, 8))
        # SubBytes
        n = [[sbox(n[r][c]) for c in range(cols)] for r in range(8)]
        # ShiftBytes: row r rotated left by sigma[r]
        sg = SHIFT[(cols, which)]
        n = [[n[r][(c + sg[r]) % cols] for c in range(cols)] for r in range(8)]
        # MixBytes: column <- circ(02,02,03,04,05,03,05,07) * column
        out = [[None] * cols for _ in range(8)]
        for c in range(cols):
            col = [n[r][c] for r in range(8)]
            mult = {}
            for r in range(8):
                acc = bv.const(0, 8)
                for k in range(8):
                    coef = MIX[(k - r) % 8]
                    key = (k, coef)
                    if key not in mult:
                        mult[key] = gmul(col[k], coef)
                    acc = bv.xor(acc, mult[key])
                out[r][c] = acc
        m = out
    return m


def mxor(a, b, cols):
    return [[bv.xor(a[r][c], b[r][c]) for c in range(cols)] for r in range(8)]


def compress(h_flat, m_flat, cols, sbox):
    """f(h, m) = P(h xor m) xor Q(m) xor h on flat byte strings"""
    h, m = to_matrix(h_flat, cols), to_matrix(m_flat, cols)
    p = perm(mxor(h, m, cols), cols, "P", sbox)
    q = perm(m, cols, "Q", sbox)
    return from_matrix(mxor(mxor(p, q, cols), h, cols), cols)


def output(h_flat, cols, sbox):
    """Omega(h) = P(h) xor h (before truncation)"""
    h = to_matrix(h_flat, cols)
    return from_matrix(mxor(perm(h, cols, "P", sbox), h, cols), cols)


def iv(cols, out_bits):
    n = 8 * cols
    return bv.const(int.from_bytes(bytes(n - 2) + bytes([out_bits >> 8, out_bits & 0xff]), "little"), 8 * n)


def pad(msg_tail_flat, p, block_bytes, blocks_before):
    """Padding of a message whose last (partial) block holds p bytes: 0x80, zeros, 64-bit BE count
    of all blocks including the padding ones.  Returns the list of final blocks (flat)."""
    total = p + 1 + 8
    nblocks = (total + block_bytes - 1) // block_bytes
    count = blocks_before + nblocks          # python int or BV handled by caller
    return nblocks


def hash_bytes(out_bits, msg):
    cols = 8 if out_bits <= 256 else 16
    bb = 8 * cols
    h = iv(cols, out_bits)
    padlen = (-(len(msg) + 9)) % bb
    nblocks = (len(msg) + 9 + padlen) // bb
    data = msg + b"\x80" + bytes(padlen) + nblocks.to_bytes(8, "big")
    for i in range(0, len(data), bb):
        blk = bv.const(int.from_bytes(data[i:i + bb], "little"), 8 * bb)
        h = compress(h, blk, cols, real_sbox)
    o = output(h, cols, real_sbox)
    v = bv.const_value(o).to_bytes(bb, "little")
    return v[bb - out_bits // 8:]


def selftest(check):
    ok = True
    # digests of the empty message from the Groestl submission KATs
    ok &= check("Groestl-256('')", hash_bytes(256, b""),
                bytes.fromhex("1a52d11d550039be16107f9c58db9ebcc417f16f736adb2502567119f0083467"))
    ok &= check("Groestl-224('')", hash_bytes(224, b""),
                bytes.fromhex("f2e180fb5947be964cd584e22e496242c6a329c577fc4ce8c36d34c3"))
    ok &= check("Groestl-512('')", hash_bytes(512, b""),
                bytes.fromhex("6d3ad29d279110eef3adbd66de2a0345a77baede1557f5d099fce0c03d6dc2ba"
                              "8e6d4a6633dfbd66053c20faa87d1a11f39a7fbe4a6c2f009801370308fc4ad8"))
    ok &= check("Groestl-384('')", hash_bytes(384, b""),
                bytes.fromhex("ac353c1095ace21439251007862d6c62f829ddbe6de4f78e68d310a9205a736d"
                              "8b11d99bffe448f57a1cfa2934f044a5"))
    ok &= check("Groestl-256('abc')", hash_bytes(256, b"abc"),
                bytes.fromhex("f3c1bb19c048801326a7efbcf16e3d7887446249829c379e1840d1a3a1e7d4d2"))
    return ok
