"""ChaCha block function (Bernstein 2008; RFC 7539 section 2.3) and HChaCha (XChaCha draft),
parametric in the arithmetic domain of engine/bv.py."""
from engine import bv

SIGMA = b"expand 32-byte k"


def sigma_words():
    return [bv.const(int.from_bytes(SIGMA[4 * i:4 * i + 4], "little"), 32) for i in range(4)]


def qr(x, a, b, c, d):
    x[a] = bv.add(x[a], x[b]); x[d] = bv.rotl(bv.xor(x[d], x[a]), 16)
    x[c] = bv.add(x[c], x[d]); x[b] = bv.rotl(bv.xor(x[b], x[c]), 12)
    x[a] = bv.add(x[a], x[b]); x[d] = bv.rotl(bv.xor(x[d], x[a]), 8)
    x[c] = bv.add(x[c], x[d]); x[b] = bv.rotl(bv.xor(x[b], x[c]), 7)


def double_round(x):
    x = list(x)
    qr(x, 0, 4, 8, 12); qr(x, 1, 5, 9, 13); qr(x, 2, 6, 10, 14); qr(x, 3, 7, 11, 15)
    qr(x, 0, 5, 10, 15); qr(x, 1, 6, 11, 12); qr(x, 2, 7, 8, 13); qr(x, 3, 4, 9, 14)
    return x


def rounds(init16, drounds):
    x = list(init16)
    for _ in range(drounds):
        x = double_round(x)
    return x


def block(key8, ctr_nonce4, drounds):
    """key8: 8 words, ctr_nonce4: words 12..15; returns the 64 keystream bytes as flat BV."""
    init = sigma_words() + list(key8) + list(ctr_nonce4)
    x = rounds(init, drounds)
    return bv.concat(bv.add(a, b) for a, b in zip(x, init))


def words32(flat):
    return [flat[i:i + 32] for i in range(0, len(flat), 32)]


def block_at(b128, c128, d128, offset, drounds):
    """State rows as 128-bit flat vectors; the 64-bit block counter in words (d0, d1) is advanced by
    `offset` (64-bit addition, words 2,3 untouched)."""
    ctr = bv.add(d128[:64], bv.const(offset, 64))
    d = ctr + d128[64:]
    return block(words32(b128) + words32(c128), words32(d), drounds)


def hchacha(key8, nonce4, drounds):
    """Subkey = words 0..3 and 12..15 of the rounds-only state."""
    init = sigma_words() + list(key8) + list(nonce4)
    x = rounds(init, drounds)
    return x[0:4] + x[12:16]
