"""BLAKE-224/256/384/512 (SHA-3 finalist, Aumasson-Henzen-Meier-Phan, final round document),
unsalted.  Parametric in the arithmetic domain of engine/bv.py.  Constants that have an
arithmetic definition are recomputed here rather than copied: the compression constants are the
leading fractional hex digits of pi, the initial values are SHA-2's (fractional parts of square
roots of primes)."""
from math import isqrt

from engine import bv

SIGMA = [
    [0, 1, 2, 3, 4, 5, 6, 7, 8, 9, 10, 11, 12, 13, 14, 15],
    [14, 10, 4, 8, 9, 15, 13, 6, 1, 12, 0, 2, 11, 7, 5, 3],
    [11, 8, 12, 0, 5, 2, 15, 13, 10, 14, 3, 6, 7, 1, 9, 4],
    [7, 9, 3, 1, 13, 12, 11, 14, 2, 6, 5, 10, 4, 0, 15, 8],
    [9, 0, 5, 7, 2, 4, 10, 15, 14, 1, 11, 12, 6, 8, 3, 13],
    [2, 12, 6, 10, 0, 11, 8, 3, 4, 13, 7, 5, 15, 14, 1, 9],
    [12, 5, 1, 15, 14, 13, 4, 10, 0, 7, 6, 3, 9, 2, 8, 11],
    [13, 11, 7, 14, 12, 1, 3, 9, 5, 0, 15, 4, 8, 6, 2, 10],
    [6, 15, 14, 9, 11, 3, 0, 8, 12, 2, 13, 7, 1, 4, 10, 5],
    [10, 2, 8, 4, 7, 6, 1, 5, 15, 11, 9, 14, 3, 12, 13, 0],
]


def pi_fraction_bits(nbits):
    """First nbits of the fractional part of pi as an integer (Machin's formula, exact integers)."""
    guard = 64
    one = 1 << (nbits + guard)

    def arctan_inv(x):
        total = term = one // x
        x2 = x * x
        n = 1
        sign = -1
        while term:
            term //= x2
            n += 2
            total += sign * (term // n)
            sign = -sign
        return total
    pi = 4 * (4 * arctan_inv(5) - arctan_inv(239))
    frac = pi - 3 * one
    return frac >> guard


def pi_words(w, n=16):
    bits = pi_fraction_bits(w * n)
    return [(bits >> (w * (n - 1 - i))) & ((1 << w) - 1) for i in range(n)]


def primes(n):
    out = []
    c = 2
    while len(out) < n:
        if all(c % p for p in out):
            out.append(c)
        c += 1
    return out


def sqrt_frac(p, bits):
    """First `bits` bits of the fractional part of sqrt(p)."""
    r = isqrt(p << (2 * bits))
    return r & ((1 << bits) - 1)


P16 = primes(16)
IV = {
    256: [sqrt_frac(p, 32) for p in P16[:8]],
    224: [sqrt_frac(p, 64) & 0xffffffff for p in P16[8:]],
    512: [sqrt_frac(p, 64) for p in P16[:8]],
    384: [sqrt_frac(p, 64) for p in P16[8:]],
}
PARAMS = {
    # variant: (word bits, rounds, block bytes, rotations, marker bit, output bytes)
    224: (32, 14, 64, (16, 12, 8, 7), 0, 28),
    256: (32, 14, 64, (16, 12, 8, 7), 1, 32),
    384: (64, 16, 128, (32, 25, 16, 11), 0, 48),
    512: (64, 16, 128, (32, 25, 16, 11), 1, 64),
}


def consts(w):
    return [bv.const(x, w) for x in pi_words(w)]


def compress(w, rounds, rot, h, m, t0, t1):
    """h: 8 words, m: 16 words (already big-endian decoded), t0/t1: counter words. Salt = 0."""
    c = consts(w)
    v = list(h) + [c[0], c[1], c[2], c[3], bv.xor(t0, c[4]), bv.xor(t0, c[5]), bv.xor(t1, c[6]), bv.xor(t1, c[7])]

    def g(r, i, a, b, cc, d):
        s = SIGMA[r % 10]
        v[a] = bv.add(bv.add(v[a], v[b]), bv.xor(m[s[2 * i]], c[s[2 * i + 1]]))
        v[d] = bv.rotr(bv.xor(v[d], v[a]), rot[0])
        v[cc] = bv.add(v[cc], v[d])
        v[b] = bv.rotr(bv.xor(v[b], v[cc]), rot[1])
        v[a] = bv.add(bv.add(v[a], v[b]), bv.xor(m[s[2 * i + 1]], c[s[2 * i]]))
        v[d] = bv.rotr(bv.xor(v[d], v[a]), rot[2])
        v[cc] = bv.add(v[cc], v[d])
        v[b] = bv.rotr(bv.xor(v[b], v[cc]), rot[3])
    for r in range(rounds):
        g(r, 0, 0, 4, 8, 12); g(r, 1, 1, 5, 9, 13); g(r, 2, 2, 6, 10, 14); g(r, 3, 3, 7, 11, 15)
        g(r, 4, 0, 5, 10, 15); g(r, 5, 1, 6, 11, 12); g(r, 6, 2, 7, 8, 13); g(r, 7, 3, 4, 9, 14)
    return [bv.xor(bv.xor(h[i], v[i]), v[i + 8]) for i in range(8)]


def be_words(block, w):
    """flat byte string (byte 0 first) -> big-endian words"""
    n = w // 8
    return [bv.bswap(block[8 * n * i:8 * n * (i + 1)]) for i in range(len(block) // (8 * n))]


def compress_block(variant, h, block, t0, t1):
    w, rounds, bb, rot, marker, outb = PARAMS[variant]
    return compress(w, rounds, rot, h, be_words(block, w), t0, t1)


def add_count(w, t0, t1, nbits):
    """(t0,t1) + nbits as a double-word counter."""
    k = bv.const(nbits, w)
    n0 = bv.add(t0, k)
    carry = bv.carry_add(t0, k)
    n1 = bv.ite(carry, bv.add(t1, bv.const(1, w)), t1)
    return n0, n1


def finalize(variant, h, buf, p, t0, t1, compress_fn=None):
    """h: chaining words after all full blocks; buf: the p buffered message bytes (flat BV of 8p
    bits); (t0,t1): bits hashed so far in full blocks.  Returns the digest bytes (flat BV)."""
    w, rounds, bb, rot, marker, outb = PARAMS[variant]
    cf = compress_fn or (lambda hh, blk, a, b: compress_block(variant, hh, blk, a, b))
    T0, T1 = add_count(w, t0, t1, 8 * p)
    lenfield = bv.bswap(T1) + bv.bswap(T0)          # big-endian (T1:T0)
    lb = 2 * w // 8
    zero = bv.const(0, w)

    def byte(x):
        return bv.const(x, 8)
    if p + 1 + lb <= bb:
        npad = bb - lb - p
        if npad == 1:
            pad = byte(0x80 | marker)
        else:
            pad = bv.concat([byte(0x80)] + [byte(0)] * (npad - 2) + [byte(marker)])
        blk = buf + pad + lenfield
        ct = (T0, T1) if p > 0 else (zero, zero)
        h = cf(h, blk, ct[0], ct[1])
    else:
        blk1 = buf + bv.concat([byte(0x80)] + [byte(0)] * (bb - p - 1))
        h = cf(h, blk1, T0, T1)
        blk2 = bv.concat([byte(0)] * (bb - lb - 1) + [byte(marker)]) + lenfield
        h = cf(h, blk2, zero, zero)
    out = bv.concat(bv.bswap(x) for x in h)
    return out[:8 * outb]


def hash_bytes(variant, msg):
    """Concrete digest of a python bytes message (oracle self-test)."""
    w, rounds, bb, rot, marker, outb = PARAMS[variant]
    h = [bv.const(x, w) for x in IV[variant]]
    t = 0
    full = len(msg) // bb
    for i in range(full):
        t += 8 * bb
        blk = bv.const(int.from_bytes(msg[i * bb:(i + 1) * bb], "little"), 8 * bb)
        h = compress_block(variant, h, blk, bv.const(t & ((1 << w) - 1), w), bv.const(t >> w, w))
    rest = msg[full * bb:]
    buf = bv.const(int.from_bytes(rest, "little"), 8 * len(rest))
    out = finalize(variant, h, buf, len(rest), bv.const(t & ((1 << w) - 1), w), bv.const(t >> w, w))
    return bv.const_value(out).to_bytes(outb, "little")


def selftest(check):
    ok = True
    # test vectors of the BLAKE submission (one zero byte / 72 resp. 144 zero bytes), and the empty string
    ok &= check("BLAKE-256(00)", hash_bytes(256, b"\x00"),
                bytes.fromhex("0ce8d4ef4dd7cd8d62dfded9d4edb0a774ae6a41929a74da23109e8f11139c87"))
    ok &= check("BLAKE-256(00 x72)", hash_bytes(256, bytes(72)),
                bytes.fromhex("d419bad32d504fb7d44d460c42c5593fe544fa4c135dec31e21bd9abdcc22d41"))
    ok &= check("BLAKE-224(00)", hash_bytes(224, b"\x00"),
                bytes.fromhex("4504cb0314fb2a4f7a692e696e487912fe3f2468fe312c73a5278ec5"))
    ok &= check("BLAKE-512(00)", hash_bytes(512, b"\x00"),
                bytes.fromhex("97961587f6d970faba6d2478045de6d1fabd09b61ae50932054d52bc29d31be4"
                              "ff9102b9f69e2bbdb83be13d4b9c06091e5fa0b48bd081b634058be0ec49beb3"))
    ok &= check("BLAKE-384(00)", hash_bytes(384, b"\x00"),
                bytes.fromhex("10281f67e135e90ae8e882251a355510a719367ad70227b137343e1bc122015c"
                              "29391e8545b5272d13a7c2879da3d807"))
    ok &= check("BLAKE-512(00 x144)", hash_bytes(512, bytes(144)),
                bytes.fromhex("313717d608e9cf758dcb1eb0f0c3cf9fc150b2d500fb33f51c52afc99d358a2f"
                              "1374b8a38bba7974e7f6ef79cab16f22ce1e649d6e01ad9589c213045d545dde"))
    return ok
