#!/bin/bash
# usage: seedtest.sh <patch.diff> <check id>...   : apply a seeded change to /repo, run checks, undo it
set -u
PATCH="$1"; shift
cd /repo
if ! git diff --quiet; then echo "repo dirty, abort"; exit 2; fi
git apply "$PATCH" || { echo "patch does not apply"; exit 2; }
for c in "$@"; do
  echo "== $c with $(basename $(dirname $PATCH))"
  (cd /verif && ./vcheck $c --tier ${TIER:-quick} 2>&1 | cut -c1-330 | grep -E "^VIOLATION|^  rule|^INCONCLUSIVE|^C[0-9]+ (quick|thorough)|KNOWN" | head -${LINES_MAX:-8})
done
git -C /repo checkout -- . && git -C /repo status --short | head -3
