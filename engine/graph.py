"""E1 helpers: constant-folded CFGs, the monomorphic call graph, reachability, dominators,
def-use chains over the MIR facts of E0."""
import re


def local_consts(body):
    """Locals assigned exactly once, from an integer/bool constant (simple constant propagation)."""
    assigned = {}
    count = {}
    for b in body["blocks"]:
        for st in b["stmts"]:
            if st["k"] != "assign":
                continue
            p = st["place"]
            if p["proj"]:
                continue
            l = p["local"]
            count[l] = count.get(l, 0) + 1
            rv = st["rv"]
            if rv["k"] == "use" and "const" in rv["op"] and "int" in rv["op"]["const"]:
                assigned[l] = int(rv["op"]["const"]["int"])
        t = b["term"]
        if t["k"] == "call":
            d = t["dest"]
            if not d["proj"]:
                count[d["local"]] = count.get(d["local"], 0) + 1
    return {l: v for l, v in assigned.items() if count.get(l) == 1}


def operand_const(op, consts):
    if "const" in op:
        c = op["const"]
        if "int" in c:
            return int(c["int"])
        return None
    pl = op.get("copy") or op.get("move")
    if pl is not None and not pl["proj"]:
        return consts.get(pl["local"])
    return None


def successors(body, i, consts=None):
    """Feasible successor blocks of block i (constant switch discriminants are folded)."""
    t = body["blocks"][i]["term"]
    k = t["k"]
    if k == "goto":
        return [t["target"]]
    if k == "switch":
        cv = operand_const(t["discr"], consts) if consts is not None else None
        if cv is not None:
            for val, tgt in t["cases"]:
                if int(val) == cv:
                    return [tgt]
            return [t["otherwise"]]
        return [tgt for _, tgt in t["cases"]] + [t["otherwise"]]
    if k in ("call", "assert", "drop"):
        return [t["target"]] if t.get("target") is not None else []
    return []


def reachable_blocks(body):
    consts = local_consts(body)
    seen = set()
    stack = [0]
    while stack:
        b = stack.pop()
        if b in seen:
            continue
        seen.add(b)
        stack.extend(successors(body, b, consts))
    return seen


def dominators(body):
    """Dominator sets over the constant-folded CFG (iterative; bodies are small)."""
    consts = local_consts(body)
    reach = reachable_blocks(body)
    preds = {b: set() for b in reach}
    for b in reach:
        for s in successors(body, b, consts):
            if s in reach:
                preds[s].add(b)
    dom = {b: set(reach) for b in reach}
    dom[0] = {0}
    changed = True
    order = sorted(reach)
    while changed:
        changed = False
        for b in order:
            if b == 0:
                continue
            ps = [dom[p] for p in preds[b]]
            new = set.intersection(*ps) if ps else set()
            new = new | {b}
            if new != dom[b]:
                dom[b] = new
                changed = True
    return dom


def call_sites(inst, only_reachable=True):
    """Yield (block index, terminator) of the call terminators of an instance body."""
    body = inst.get("body")
    if not body:
        return
    reach = reachable_blocks(body) if only_reachable else range(len(body["blocks"]))
    for i in sorted(reach):
        t = body["blocks"][i]["term"]
        if t["k"] == "call":
            yield i, t


def _fn_consts(x, out):
    if isinstance(x, dict):
        if "fndef" in x and isinstance(x["fndef"], dict):
            i = x["fndef"].get("inst")
            if i:
                out.add(i)
        for v in x.values():
            _fn_consts(v, out)
    elif isinstance(x, list):
        for v in x:
            _fn_consts(v, out)


def callees(facts, key):
    """Instance keys possibly called (directly, or taken as function values) from the
    constant-folded reachable part of `key`."""
    inst = facts.instances.get(key)
    out = set()
    if not inst or not inst.get("body"):
        return out
    body = inst["body"]
    for i in reachable_blocks(body):
        b = body["blocks"][i]
        t = b["term"]
        if t["k"] == "call" and "callee" in t:
            ci = t["callee"].get("inst")
            if ci:
                out.add(ci)
        _fn_consts(b["stmts"], out)
        if t["k"] == "call":
            _fn_consts(t["args"], out)
    # closures and fn items named only in types of locals (e.g. passed as zero-sized values)
    for lt in body["locals"]:
        d = facts.types.get(lt)
        if d and d["kind"] == "fndef" and d.get("inst"):
            out.add(d["inst"])
        if d and d["kind"] == "closure":
            for k2, v2 in facts.instances.items():
                if v2["def"] == d["def"]:
                    out.add(k2)
    return out


def closure(facts, roots, stop=None):
    """Reachable instance set from roots (stop: predicate on instance key to not descend)."""
    seen = set()
    stack = list(roots)
    while stack:
        k = stack.pop()
        if k in seen:
            continue
        seen.add(k)
        if stop and stop(k):
            continue
        stack.extend(callees(facts, k))
    return seen


def krate(facts, key):
    inst = facts.instances.get(key)
    if not inst:
        return None
    return facts.defs[inst["def"]]["krate"]


def target_features(facts, key):
    inst = facts.instances.get(key)
    if not inst:
        return set(), set()
    tf = facts.defs[inst["def"]].get("target_features", [])
    explicit = {f["name"] for f in tf if not f["implied"]}
    allf = {f["name"] for f in tf}
    return explicit, allf


def is_panic_fn(defpath):
    return (defpath.startswith("core::panicking::") or defpath.startswith("std::rt::panic")
            or defpath in ("core::result::unwrap_failed", "core::option::unwrap_failed", "core::option::expect_failed",
                           "core::slice::index::slice_index_fail", "core::slice::copy_from_slice_impl::len_mismatch_fail",
                           "core::slice::index::slice_start_index_len_fail", "core::slice::index::slice_end_index_len_fail",
                           "core::slice::index::slice_index_order_fail", "core::str::slice_error_fail",
                           "core::cell::panic_already_borrowed", "alloc::alloc::handle_alloc_error"))


def panic_message(t):
    """Best effort: the &str constant passed to core::panicking::panic."""
    for a in t.get("args", []):
        c = a.get("const")
        if c and "slice" in c and "bytes" in c["slice"]:
            try:
                return bytes.fromhex(c["slice"]["bytes"]).decode("utf8", "replace")[: c.get("meta", 200)]
            except ValueError:
                pass
    return ""
