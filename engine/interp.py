"""E2: abstract interpretation of monomorphic MIR over the bit-level term domain of bv.py.

This is not an execution of the repository's code: parameters are symbolic bit-vectors, every
operation builds (normalised) terms, branches on non-constant conditions are if-converted (both
successors are followed and joined with ite), and anything without a model is UNDECIDED.  The only
concrete values are compile-time constants and *selectors* the caller chose to case-split.
"""
import re

from . import bv
from .bv import ZERO, ONE


class Undecided(Exception):
    pass


class Diverge(Exception):
    """The analysed path ends in a panic / abort."""

    def __init__(self, site):
        Exception.__init__(self, site)
        self.site = site


class Cell:
    __slots__ = ("v", "name")

    def __init__(self, v, name=""):
        self.v = v
        self.name = name


class Undef:
    def __repr__(self):
        return "UNDEF"


UNDEF = Undef()


class Agg:
    __slots__ = ("f",)

    def __init__(self, f):
        self.f = tuple(f)

    def __eq__(self, o):
        return isinstance(o, Agg) and self.f == o.f

    def __hash__(self):
        return hash(self.f)

    def __repr__(self):
        return "Agg(%d)" % len(self.f)


class Enum:
    __slots__ = ("variant", "f")

    def __init__(self, variant, f=()):
        self.variant = variant
        self.f = tuple(f)

    def __eq__(self, o):
        return isinstance(o, Enum) and self.variant == o.variant and self.f == o.f

    def __hash__(self):
        return hash((self.variant, self.f))

    def __repr__(self):
        return "Enum(%d,%r)" % (self.variant, self.f)


class Ptr:
    """Pointer to the sub-value at `path` of `cell`.  If idx is not None the pointer designates the
    element run starting at element `idx` of the array found at `path` (slice / element pointer);
    meta is the slice length (python int) for fat pointers; ety is the element type of that array."""
    __slots__ = ("cell", "path", "idx", "meta", "ety", "vty")

    def __init__(self, cell, path=(), idx=None, meta=None, ety=None, vty=None):
        self.cell = cell
        self.path = tuple(path)
        self.idx = idx
        self.meta = meta
        self.ety = ety
        self.vty = vty      # element type of a slice VIEW over the run (e.g. &[u64] over bytes), else None

    def __eq__(self, o):
        return (isinstance(o, Ptr) and self.cell is o.cell and self.path == o.path and self.idx == o.idx
                and self.meta == o.meta and self.vty == o.vty)

    def __hash__(self):
        return hash((id(self.cell), self.path, self.idx, self.meta))

    def __repr__(self):
        return "Ptr(%s,%s,idx=%s,meta=%s)" % (self.cell.name, self.path, self.idx, self.meta)


class FnVal:
    __slots__ = ("inst",)

    def __init__(self, inst):
        self.inst = inst

    def __eq__(self, o):
        return isinstance(o, FnVal) and self.inst == o.inst

    def __hash__(self):
        return hash(self.inst)

    def __repr__(self):
        return "FnVal(%s)" % self.inst


class FnSel:
    """A function value that depends on conditions (e.g. a function pointer chosen by CPU detection):
    decision list [(condition bit, FnVal)], first true condition wins, the last entry is the default."""
    __slots__ = ("alts",)

    def __init__(self, alts):
        self.alts = list(alts)

    def __repr__(self):
        return "FnSel(%d)" % len(self.alts)


class Place:
    __slots__ = ("cell", "path", "ty", "sl", "cast")

    def __init__(self, cell, path, ty, sl=None, cast=None):
        self.cell = cell
        self.path = path
        self.ty = ty
        self.sl = sl      # (start, len, ety): slice view of the array at path
        self.cast = cast  # (start_elem, ety): typed view over an element run (pointer cast)


GA_DEF = "generic_array::GenericArray"


class Types:
    def __init__(self, table):
        self.t = table
        self._ga = {}

    def get(self, k):
        return self.t[k]

    def kind(self, k):
        return self.t[k]["kind"]

    def size_bits(self, k):
        d = self.t[k]
        if "size" not in d:
            raise Undecided("unsized type %s" % k)
        return d["size"] * 8

    def is_ga(self, k):
        d = self.t[k]
        return d["kind"] == "struct" and d.get("def") == GA_DEF

    def ga_elem(self, k):
        r = self._ga.get(k)
        if r is None:
            d = self.t[k]
            e = d["args"][0]
            esz = self.t[e]["size"]
            n = d["size"] // esz if esz else 0
            r = (e, n)
            self._ga[k] = r
        return r

    def is_flat(self, k):
        d = self.t[k]
        kd = d["kind"]
        if kd in ("int", "bool", "char", "float", "union"):
            return True
        if kd == "struct" and d.get("repr_simd"):
            return True
        return False

    def fields(self, k, variant=0):
        """[(offset_bits, ty)] of a struct / tuple / closure / enum variant."""
        d = self.t[k]
        kd = d["kind"]
        if kd in ("tuple", "closure"):
            return [(f.get("offset", 0) * 8, f["ty"]) for f in d["fields"]]
        if kd in ("struct", "union", "enum"):
            return [(f.get("offset", 0) * 8, f["ty"]) for f in d["variants"][variant]["fields"]]
        raise Undecided("fields of %s (%s)" % (k, kd))

    def elem(self, k):
        d = self.t[k]
        if d["kind"] in ("array", "slice"):
            return d["elem"]
        if self.is_ga(k):
            return self.ga_elem(k)[0]
        if d["kind"] == "str":
            return "u8"
        raise Undecided("elem of %s" % k)

    def array_len(self, k):
        d = self.t[k]
        if d["kind"] == "array":
            return d["len"]
        if self.is_ga(k):
            return self.ga_elem(k)[1]
        raise Undecided("len of %s" % k)

    def is_arraylike(self, k):
        d = self.t[k]
        return d["kind"] == "array" or self.is_ga(k)

    def int_info(self, k):
        d = self.t[k]
        if d["kind"] == "int":
            return d["bits"], d["signed"]
        if d["kind"] == "bool":
            return 1, False
        if d["kind"] == "char":
            return 32, False
        raise Undecided("int_info of %s" % k)


def bool_bv(bit):
    return (bit,)


class Frame:
    __slots__ = ("inst", "body", "locals", "key")

    def __init__(self, key, inst, body):
        self.key = key
        self.inst = inst
        self.body = body
        self.locals = [Cell(UNDEF, "%s#_%d" % (key[-40:], i)) for i in range(len(body["locals"]))]


class Interp:
    def __init__(self, facts, models=None, hooks=None, max_steps=2_000_000):
        import os as _os, time as _time
        # one rule instance must not run for hours on a tree where a modular boundary vanished
        self.deadline = _time.time() + (float(_os.environ.get("VERIF_INSTANCE_BUDGET", "0")) or 420.0)
        self.facts = facts
        self.ins = facts.instances
        self.defs = facts.defs
        self.ty = Types(facts.types)
        self.models = models or {}
        self.hooks = hooks or {}          # inst key regex -> python replacement (modular mode)
        self._hook_rx = [(re.compile(k), v) for k, v in self.hooks.items()]
        self.frames = []
        self.heap = []                     # cells not owned by frames (parameters' backing store)
        self.steps = 0
        self.max_steps = max_steps
        self.asserts = []                  # (inst, bb, kind, cond bit) non-constant assertions met
        self.panics = []                   # (site, path condition) conditional panics met on forks
        self.pathcond = []                 # stack of condition bits
        self.calls_seen = set()
        self.trace = False

    # ------------------------------------------------------------------ memory helpers
    def cell_address(self, cell):
        """Assumed address (mod 64) of a root allocation: the alignment selector for cells the check
        registered in self.align_cases, a different but fixed residue for everything else."""
        a = getattr(self, "align_case", 0)
        if any(cell.name.startswith(n) for n in getattr(self, "align_names", ("data", "input", "out", "block", "m"))):
            return a % 64
        return (a * 7 + 3) % 64

    def new_cell(self, v, name="heap"):
        c = Cell(v, name)
        self.heap.append(c)
        return c

    def snapshot(self):
        snap = {}
        for c in self.heap:
            snap[c] = c.v
        for fr in self.frames:
            for c in fr.locals:
                snap[c] = c.v
        return snap

    def restore(self, snap):
        for c, v in snap.items():
            c.v = v

    # ------------------------------------------------------------------ value <-> bits
    def to_bits(self, v, t):
        ty = self.ty
        if isinstance(v, tuple):
            return v
        if v is UNDEF:
            raise Undecided("read of uninitialised value of type %s" % t)
        size = ty.size_bits(t)
        if isinstance(v, Agg):
            if ty.is_arraylike(t):
                e = ty.elem(t)
                return bv.concat(self.to_bits(x, e) for x in v.f)
            out = [ZERO] * size
            for (off, ft), x in zip(ty.fields(t), v.f):
                fs = ty.size_bits(ft)
                if fs == 0:
                    continue
                b = self.to_bits(x, ft)
                out[off:off + fs] = b
            return tuple(out)
        raise Undecided("to_bits of %r as %s" % (v, t))

    def from_bits(self, bits, t):
        ty = self.ty
        d = ty.get(t)
        kd = d["kind"]
        if ty.is_flat(t):
            if len(bits) != ty.size_bits(t):
                raise Undecided("size mismatch from_bits %s: %d" % (t, len(bits)))
            return tuple(bits)
        if ty.is_arraylike(t):
            e = ty.elem(t)
            n = ty.array_len(t)
            es = ty.size_bits(e)
            return Agg(self.from_bits(bits[i * es:(i + 1) * es], e) for i in range(n))
        if kd in ("struct", "tuple", "closure"):
            out = []
            for off, ft in ty.fields(t):
                fs = ty.size_bits(ft)
                out.append(self.from_bits(bits[off:off + fs], ft))
            return Agg(out)
        raise Undecided("from_bits to %s (%s)" % (t, kd))

    def zero_value(self, t):
        return self.from_bits((ZERO,) * self.ty.size_bits(t), t)

    def as_agg(self, v, t):
        if isinstance(v, Agg) or isinstance(v, Enum):
            return v
        if isinstance(v, tuple):
            return self.from_bits(v, t)
        raise Undecided("as_agg of %r (%s)" % (v, t))

    # ------------------------------------------------------------------ path navigation
    def project(self, v, e):
        k = e[0]
        ty = self.ty
        if k == "f":
            _, i, ct = e
            if isinstance(v, Enum):
                return v.f[i]
            if ty.kind(ct) == "union":
                off, ft = ty.fields(ct)[i]
                bits = self.to_bits(v, ct)
                return self.from_bits(bits[off:off + ty.size_bits(ft)], ft)
            v = self.as_agg(v, ct)
            return v.f[i]
        if k == "i":
            _, n, ct = e
            if ct is None and not isinstance(v, Agg):
                raise Undecided("element of unstructured value")
            v = self.as_agg(v, ct)
            if n >= len(v.f):
                raise Undecided("index %d out of range %d" % (n, len(v.f)))
            return v.f[n]
        if k == "v":
            _, var, ct = e
            if isinstance(v, Enum):
                if v.variant != var:
                    raise Undecided("downcast to variant %d of value in variant %d" % (var, v.variant))
                return v
            raise Undecided("downcast of non-enum value %r" % (v,))
        raise Undecided("project %r" % (e,))

    def inject(self, v, e, new):
        k = e[0]
        ty = self.ty
        if k == "f":
            _, i, ct = e
            if isinstance(v, Enum):
                f = list(v.f)
                f[i] = new
                return Enum(v.variant, f)
            if ty.kind(ct) == "union":
                off, ft = ty.fields(ct)[i]
                size = ty.size_bits(ct)
                bits = list(self.to_bits(v, ct)) if v is not UNDEF else [ZERO] * size
                nb = self.to_bits(new, ft)
                bits[off:off + len(nb)] = nb
                return tuple(bits)
            if v is UNDEF:
                v = Agg([UNDEF] * len(ty.fields(ct)))
            v = self.as_agg(v, ct)
            f = list(v.f)
            f[i] = new
            return Agg(f)
        if k == "i":
            _, n, ct = e
            if v is UNDEF:
                v = Agg([UNDEF] * ty.array_len(ct))
            v = self.as_agg(v, ct)
            f = list(v.f)
            f[n] = new
            return Agg(f)
        if k == "v":
            return new
        raise Undecided("inject %r" % (e,))

    def read_path(self, v, path):
        for e in path:
            v = self.project(v, e)
        return v

    def write_path(self, v, path, new):
        if not path:
            return new
        e = path[0]
        if len(path) == 1:
            return self.inject(v, e, new)
        sub = self.project(v, e) if v is not UNDEF else UNDEF
        return self.inject(v, e, self.write_path(sub, path[1:], new))

    # ------------------------------------------------------------------ places
    def eval_place(self, fr, p):
        ty = self.ty
        cell = fr.locals[p["local"]]
        t = fr.body["locals"][p["local"]]
        pl = Place(cell, (), t)
        for e in p["proj"]:
            k = e["k"]
            if k == "deref":
                v = self.read_place(pl)
                if not isinstance(v, Ptr):
                    raise Undecided("deref of non-pointer %r in %s" % (v, fr.key))
                td = ty.get(pl.ty)
                if td["kind"] not in ("ref", "rawptr"):
                    # Box / NonNull etc.
                    raise Undecided("deref of %s" % pl.ty)
                pt = td["pointee"]
                pk = ty.kind(pt)
                if v.idx is not None:
                    if pk in ("slice", "str"):
                        pl = Place(v.cell, v.path, pt, sl=(v.idx, v.meta, v.ety, v.vty))
                    else:
                        if v.ety == pt or (v.ety is not None and ty.get(v.ety) == ty.get(pt)):
                            at = None
                            pl = Place(v.cell, v.path + (("i", v.idx, None),), pt)
                        else:
                            pl = Place(v.cell, v.path, pt, cast=(v.idx, v.ety))
                else:
                    pl = Place(v.cell, v.path, pt)
            elif k == "field":
                ct = pl.ty
                if pl.sl or pl.cast:
                    raise Undecided("field of view")
                pl = Place(pl.cell, pl.path + (("f", e["i"], ct),), e["ty"])
            elif k == "downcast":
                pl = Place(pl.cell, pl.path + (("v", e["variant"], pl.ty),), pl.ty)
            elif k in ("index", "constindex"):
                if k == "index":
                    iv = fr.locals[e["local"]].v
                    n = bv.const_value(iv) if isinstance(iv, tuple) else None
                    if n is None:
                        raise Undecided("symbolic index in %s" % fr.key)
                else:
                    n = e["offset"]
                    if e["from_end"]:
                        raise Undecided("constindex from_end")
                if pl.sl is not None:
                    start, ln, ety, vty = pl.sl
                    if ln is not None and n >= ln:
                        raise Diverge(("index out of bounds", fr.key))
                    if vty is not None and vty != ety:
                        pl = Place(pl.cell, pl.path, vty, cast=(start + n * self.view_stride(ety, vty), ety))
                    else:
                        pl = Place(pl.cell, pl.path + (("i", start + n, None),), ety)
                else:
                    et = ty.elem(pl.ty)
                    pl = Place(pl.cell, pl.path + (("i", n, pl.ty),), et)
            else:
                raise Undecided("projection %s" % k)
        return pl

    def _fix_path(self, path):
        return path

    def read_place(self, pl):
        ty = self.ty
        if pl.sl is not None:
            raise Undecided("read of unsized slice place")
        if pl.cast is not None:
            start, ety = pl.cast
            arr = self.read_path(pl.cell.v, pl.path)
            es = ty.size_bits(ety)
            need = ty.size_bits(pl.ty)
            if es == 0 or need % es:
                raise Undecided("cast view granularity")
            cnt = need // es
            if not isinstance(arr, Agg):
                raise Undecided("cast view over non-array %r" % (arr,))
            if start + cnt > len(arr.f):
                raise Diverge(("out-of-bounds read through cast pointer: elements %d..%d of %d"
                               % (start, start + cnt, len(arr.f)), "memory"))
            bits = bv.concat(self.to_bits(arr.f[start + j], ety) for j in range(cnt))
            return self.from_bits(bits, pl.ty)
        return self.read_path(pl.cell.v, pl.path)

    def write_place(self, pl, new):
        ty = self.ty
        if pl.sl is not None:
            raise Undecided("write of unsized slice place")
        if pl.cast is not None:
            start, ety = pl.cast
            arr = self.read_path(pl.cell.v, pl.path)
            es = ty.size_bits(ety)
            bits = self.to_bits(new, pl.ty)
            cnt = len(bits) // es
            if not isinstance(arr, Agg):
                raise Undecided("cast view over non-array")
            if start + cnt > len(arr.f):
                raise Diverge(("out-of-bounds write through cast pointer: elements %d..%d of %d"
                               % (start, start + cnt, len(arr.f)), "memory"))
            f = list(arr.f)
            for j in range(cnt):
                f[start + j] = self.from_bits(bits[j * es:(j + 1) * es], ety)
            pl.cell.v = self.write_path(pl.cell.v, pl.path, Agg(f))
            return
        pl.cell.v = self.write_path(pl.cell.v, pl.path, new)

    def place_to_ptr(self, pl):
        if pl.sl is not None:
            start, ln, ety, vty = pl.sl
            return Ptr(pl.cell, pl.path, idx=start, meta=ln, ety=ety, vty=vty)
        if pl.cast is not None:
            start, ety = pl.cast
            return Ptr(pl.cell, pl.path, idx=start, meta=None, ety=ety)
        # pointer to an array element keeps its element-run form so that pointer arithmetic works
        if pl.path and pl.path[-1][0] == "i":
            return Ptr(pl.cell, pl.path[:-1], idx=pl.path[-1][1], meta=None, ety=pl.ty)
        return Ptr(pl.cell, pl.path)

    # ------------------------------------------------------------------ operands / constants
    def const_value(self, c):
        t = c["ty"]
        ty = self.ty
        if "fndef" in c:
            return FnVal(c["fndef"])
        if "int" in c:
            v = int(c["int"])
            kd = ty.kind(t)
            if kd == "bool":
                return (ONE if v else ZERO,)
            return bv.const(v, ty.size_bits(t))
        if "zst" in c:
            d = ty.get(t)
            if d["kind"] == "fndef":
                return FnVal({"inst": d.get("inst"), "def": d.get("def")})
            return Agg(())
        if "indirect" in c:
            a = c["indirect"]
            if "bytes" not in a or a.get("ptrs"):
                raise Undecided("constant with relocations")
            off = c.get("offset", 0)
            size = ty.get(t)["size"]
            data = bytes.fromhex(a["bytes"])[off:off + size]
            bits = bv.const(int.from_bytes(data, "little"), size * 8)
            return self.from_bits(bits, t)
        if "slice" in c:
            a = c["slice"]
            data = bytes.fromhex(a["bytes"])
            cell = self.new_cell(Agg(bv.const(b, 8) for b in data), "const-slice")
            return Ptr(cell, (), idx=0, meta=c["meta"], ety="u8")
        if "ptr" in c:
            a = c["ptr"]
            d = ty.get(t)
            if "static" in a:
                # a `static` item: one cell per interpreter; its contents are unknown (symbolic) unless
                # the code under analysis writes them first (lazy_static's Lazy is modelled separately)
                cells = self.__dict__.setdefault("_static_cells", {})
                name = a["static"]
                if c.get("ptr_offset", 0):
                    raise Undecided("constant pointer into the middle of static %s" % name)
                if name not in cells:
                    pt = d["pointee"] if d["kind"] in ("ref", "rawptr") else None
                    if pt is None or ty.kind(pt) in ("slice", "str"):
                        raise Undecided("pointer to static %s" % name)
                    nbits = ty.size_bits(pt)
                    if nbits == 0:
                        val = Agg(())
                    elif "bytes" in a:      # immutable, Freeze: exactly the initialiser's bytes
                        data = bytes.fromhex(a["bytes"])
                        val = self.from_bits(bv.const(int.from_bytes(data[:nbits // 8], "little"), nbits), pt)
                    else:
                        val = self.from_bits(bv.inp("static." + name, nbits), pt)
                    cells[name] = self.new_cell(val, "static " + name)
                return Ptr(cells[name], ())
            if "fn" in a:
                return FnVal({"inst": a["fn"]})
            if "bytes" not in a or a.get("ptrs"):
                raise Undecided("pointer constant with relocations")
            if d["kind"] not in ("ref", "rawptr"):
                raise Undecided("ptr const of type %s" % t)
            pt = d["pointee"]
            data = bytes.fromhex(a["bytes"])
            off = c.get("ptr_offset", 0)
            if ty.kind(pt) in ("slice", "str"):
                raise Undecided("thin ptr const to unsized")
            size = ty.get(pt)["size"]
            bits = bv.const(int.from_bytes(data[off:off + size], "little"), size * 8)
            cell = self.new_cell(self.from_bits(bits, pt), "const")
            return Ptr(cell, ())
        raise Undecided("constant %r" % (c,))

    def eval_operand(self, fr, op):
        if "copy" in op:
            return self.read_place(self.eval_place(fr, op["copy"]))
        if "move" in op:
            return self.read_place(self.eval_place(fr, op["move"]))
        if "const" in op:
            return self.const_value(op["const"])
        if "runtime_check" in op:
            return (ZERO,)   # UB-check preconditions are not part of the analysed semantics
        raise Undecided("operand %r" % (op,))

    # ------------------------------------------------------------------ rvalues
    def binop(self, op, a, b, t):
        ty = self.ty
        kd = ty.kind(t)
        if isinstance(a, Ptr) or isinstance(b, Ptr):
            if op == "offset":
                n = bv.const_value(b)
                if n is None:
                    raise Undecided("symbolic pointer offset")
                return self.ptr_offset(a, n, None)
            if op in ("eq", "ne") and isinstance(a, Ptr) and isinstance(b, Ptr):
                same = a.cell is b.cell and a.path == b.path and (a.idx or 0) == (b.idx or 0)      # same address
                return (ONE if (same == (op == "eq")) else ZERO,)
            raise Undecided("pointer binop %s" % op)
        if not isinstance(a, tuple) or not isinstance(b, tuple):
            raise Undecided("binop %s on %r,%r" % (op, a, b))
        if kd == "bool":
            bits, signed = 1, False
        else:
            bits, signed = ty.int_info(t)
        if op in ("add", "add_unchecked"):
            return bv.add(a, b)
        if op in ("sub", "sub_unchecked"):
            return bv.sub(a, b)
        if op in ("mul", "mul_unchecked"):
            return bv.mul(a, b)
        if op == "bitxor":
            return bv.xor(a, b)
        if op == "bitand":
            return bv.and_(a, b)
        if op == "bitor":
            return bv.or_(a, b)
        if op in ("shl", "shr", "shl_unchecked", "shr_unchecked"):
            k = bv.const_value(b)
            if k is None:
                raise Undecided("symbolic shift amount")
            if op in ("shl", "shr"):
                k &= bits - 1   # MIR Shl/Shr mask the amount (overflow is checked by a separate Assert)
            if op.startswith("shl"):
                return bv.shl(a, k)
            return bv.ashr(a, k) if signed else bv.lshr(a, k)
        if op in ("eq", "ne"):
            return (bv.cmp_bit(op, a, b),)
        if op in ("lt", "le", "gt", "ge"):
            return (bv.cmp_bit(("s" if signed else "u") + op, a, b),)
        if op in ("add_overflow", "sub_overflow", "mul_overflow"):
            ca, cb = bv.const_value(a), bv.const_value(b)
            if op == "add_overflow":
                r = bv.add(a, b)
                if signed:
                    # overflow iff operands have equal sign and result differs
                    o = bv.band(a[-1] ^ b[-1] ^ ONE, a[-1] ^ r[-1])
                    if ca is not None and cb is not None:
                        pass
                else:
                    o = bv.carry_add(a, b)
            elif op == "sub_overflow":
                r = bv.sub(a, b)
                if signed:
                    o = bv.band(a[-1] ^ b[-1], a[-1] ^ r[-1])
                else:
                    o = bv.cmp_bit("ult", a, b)
            else:
                r = bv.mul(a, b)
                if ca is not None and cb is not None:
                    if signed:
                        def s(v):
                            return v - (1 << bits) if v >> (bits - 1) else v
                        p = s(ca) * s(cb)
                        o = ONE if not (-(1 << (bits - 1)) <= p < (1 << (bits - 1))) else ZERO
                    else:
                        o = ONE if (ca * cb) >> bits else ZERO
                else:
                    k = ca if ca is not None else cb
                    other = b if ca is not None else a
                    if k is not None and k and not signed and (k & (k - 1)) == 0:
                        sh = k.bit_length() - 1
                        # overflow iff any of the top `sh` bits is set
                        o = ZERO
                        for x in other[bits - sh:]:
                            o = bv.bor(o, x)
                    elif k == 0:
                        o = ZERO
                    else:
                        o = bv.abit(("mulovf", a, b))
            return Agg([r, (o,)])
        if op in ("div", "rem"):
            ca, cb = bv.const_value(a), bv.const_value(b)
            if cb is not None and cb and not signed and (cb & (cb - 1)) == 0:
                sh = cb.bit_length() - 1
                if op == "div":
                    return bv.lshr(a, sh)
                return a[:sh] + (ZERO,) * (bits - sh)
            if ca is not None and cb is not None and cb and not signed:
                return bv.const(ca // cb if op == "div" else ca % cb, bits)
            if ca is not None and cb is not None and cb and signed:
                def sg(v):
                    return v - (1 << bits) if v >> (bits - 1) else v
                x, y = sg(ca), sg(cb)
                q = abs(x) // abs(y)
                if (x < 0) != (y < 0):
                    q = -q
                return bv.const(q if op == "div" else x - q * y, bits)      # truncation toward zero
            if signed and cb is not None and 0 < cb < (1 << (bits - 1)) and (cb & (cb - 1)) == 0:
                # signed division by 2^k rounds toward zero: bias negative operands by 2^k - 1
                sh = cb.bit_length() - 1
                bias = tuple(a[-1] if i < sh else ZERO for i in range(bits))
                q = bv.ashr(bv.add(a, bias), sh)
                if op == "div":
                    return q
                return bv.sub(a, bv.shl(q, sh))
            raise Undecided("%s by non power of two / signed (%s / %s, %s)" % (op, bv.show_bv(a)[:80] if ca is None else ca, bv.show_bv(b)[:80] if cb is None else cb, t))
        if op == "cmp":
            lt = bv.cmp_bit("slt" if signed else "ult", a, b)
            eq = bv.cmp_bit("eq", a, b)
            cl, ce = bv.const_value((lt,)), bv.const_value((eq,))
            if cl is None or ce is None:
                raise Undecided("symbolic three-way comparison")
            return Enum(0 if cl else (1 if ce else 2))
        raise Undecided("binop %s" % op)

    def ptr_offset(self, p, n, pointee_ty):
        if p.idx is None:
            if n == 0:
                return p
            raise Undecided("offset of non-element pointer")
        scale = 1
        if pointee_ty is not None and p.ety is not None and pointee_ty != p.ety:
            ps, es = self.ty.size_bits(pointee_ty), self.ty.size_bits(p.ety)
            if es == 0 or ps % es:
                raise Undecided("pointer offset granularity")
            scale = ps // es
        return Ptr(p.cell, p.path, idx=p.idx + n * scale, meta=p.meta, ety=p.ety)

    def cast(self, kind, v, tf, tt):
        ty = self.ty
        if kind == "int_to_int":
            kf = ty.kind(tf)
            if kf == "enum":
                if not isinstance(v, Enum):
                    raise Undecided("enum cast")
                d = ty.get(tf)["variants"][v.variant]["discr"]
                return bv.const(int(d), ty.size_bits(tt))
            bf, sf = ty.int_info(tf)
            bt, _ = ty.int_info(tt) if ty.kind(tt) != "bool" else (1, False)
            if kf == "bool":
                return bv.zext(v, bt)
            return bv.sext(v, bt) if sf else bv.zext(v, bt)
        if kind == "transmute":
            if isinstance(v, Ptr):
                if ty.kind(tt) == "int":
                    # address of a pointer (debug-build pointer checks): an opaque symbolic word
                    return bv.ufn("addr", (bv.const(id(v.cell) & 0xffffffff, 32), bv.const(v.idx or 0, 32)), ty.size_bits(tt))
                return v
            bits = self.to_bits(v, tf)
            if ty.size_bits(tt) != len(bits):
                raise Undecided("transmute size mismatch")
            return self.from_bits(bits, tt)
        if kind == "ptr_to_ptr":
            if not isinstance(v, Ptr):
                raise Undecided("ptr_to_ptr of %r" % (v,))
            dt = ty.get(tt)
            pt = dt["pointee"]
            if ty.kind(pt) in ("slice", "str"):
                return v
            if v.idx is not None:
                # thin pointer into a run of `ety`; remember the pointee type when it is a different view
                view = pt if (v.ety is not None and pt != v.ety and ty.get(pt) != ty.get(v.ety)) else None
                return Ptr(v.cell, v.path, idx=v.idx, meta=None, ety=v.ety, vty=view)
            # thin pointer to a whole array reinterpreted as pointer to its first element
            pf = ty.get(tf)["pointee"]
            if pf != pt and ty.kind(pf) != "slice" and ty.is_arraylike(pf):
                return Ptr(v.cell, v.path, idx=0, meta=None, ety=ty.elem(pf))
            return v
        if kind.startswith("coerce:"):
            what = kind[7:]
            if what.startswith("Unsize"):
                if not isinstance(v, Ptr):
                    raise Undecided("unsize of %r" % (v,))
                pf = ty.get(tf)["pointee"]
                if ty.kind(pf) == "array":
                    path = v.path
                    if v.idx is not None:
                        # pointer to an element (itself an array) of an outer array
                        if v.ety is not None and v.ety != pf and ty.get(v.ety) != ty.get(pf):
                            if v.ety == ty.elem(pf):
                                # pointer into a run of T reinterpreted as *[T; N]: the N elements from idx on
                                return Ptr(v.cell, v.path, idx=v.idx, meta=ty.array_len(pf), ety=v.ety)
                            if self.ty.size_bits(ty.elem(pf)) % max(1, self.ty.size_bits(v.ety)) == 0 and self.ty.size_bits(v.ety):
                                # ... or as *[U; N] with U a multiple of T: a slice view of N elements of U
                                return Ptr(v.cell, v.path, idx=v.idx, meta=ty.array_len(pf), ety=v.ety, vty=ty.elem(pf))
                            raise Undecided("unsize of a cast element pointer (%s viewed as %s)" % (v.ety, pf))
                        path = path + (("i", v.idx, None),)
                    return Ptr(v.cell, path, idx=0, meta=ty.array_len(pf), ety=ty.elem(pf))
                raise Undecided("unsize coercion from %s" % pf)
            if what.startswith("ReifyFnPointer") or what.startswith("ClosureFnPointer"):
                return v
            if what.startswith("MutToConstPointer") or what.startswith("ArrayToPointer"):
                if what.startswith("ArrayToPointer") and isinstance(v, Ptr):
                    pf = ty.get(tf)["pointee"]
                    return Ptr(v.cell, v.path, idx=0, meta=None, ety=ty.elem(pf))
                return v
            raise Undecided("coercion %s" % what)
        raise Undecided("cast %s" % kind)

    def eval_rvalue(self, fr, rv, dest_ty):
        ty = self.ty
        k = rv["k"]
        if k == "use":
            return self.eval_operand(fr, rv["op"])
        if k == "binop":
            a = self.eval_operand(fr, rv["a"])
            b = self.eval_operand(fr, rv["b"])
            return self.binop(rv["op"], a, b, rv["ty"])
        if k == "unop":
            a = self.eval_operand(fr, rv["a"])
            op = rv["op"]
            if op == "not":
                return bv.not_(a)
            if op == "neg":
                return bv.neg(a)
            if op == "ptr_metadata":
                if isinstance(a, Ptr) and a.meta is not None:
                    return bv.const(a.meta, 64)
                return Agg(())
            raise Undecided("unop %s" % op)
        if k == "ref" or k == "rawptr":
            pl = self.eval_place(fr, rv["place"])
            return self.place_to_ptr(pl)
        if k == "cast":
            v = self.eval_operand(fr, rv["op"])
            return self.cast(rv["cast"], v, rv["from"], rv["to"])
        if k == "aggregate":
            ops = [self.eval_operand(fr, o) for o in rv["ops"]]
            agg = rv["agg"]
            if agg in ("tuple", "array", "closure"):
                return Agg(ops)
            if agg == "adt":
                dk = ty.kind(dest_ty)
                if dk == "enum":
                    return Enum(rv["variant"], ops)
                if dk == "union":
                    i = rv["union_field"]
                    off, ft = ty.fields(dest_ty)[i]
                    size = ty.size_bits(dest_ty)
                    bits = [ZERO] * size
                    nb = self.to_bits(ops[0], ft)
                    bits[off:off + len(nb)] = nb
                    return tuple(bits)
                if ty.is_flat(dest_ty):
                    # repr(simd) struct built from its array
                    return self.to_bits(ops[0], ty.fields(dest_ty)[0][1])
                return Agg(ops)
            if agg == "rawptr":
                p, meta = ops
                if isinstance(p, Ptr):
                    m = bv.const_value(meta) if isinstance(meta, tuple) else None
                    if isinstance(meta, Agg):
                        return p
                    if m is None:
                        raise Undecided("symbolic slice length")
                    if p.idx is None:
                        raise Undecided("raw slice from non-element pointer")
                    vty = None
                    dd = ty.get(dest_ty)
                    if dd["kind"] in ("ref", "rawptr") and ty.kind(dd["pointee"]) == "slice":
                        et = ty.get(dd["pointee"])["elem"]
                        if p.ety is not None and et != p.ety and ty.get(et) != ty.get(p.ety):
                            vty = et        # *const [U] over a run of T: a slice view
                    return Ptr(p.cell, p.path, idx=p.idx, meta=m, ety=p.ety, vty=vty)
            raise Undecided("aggregate %s" % agg)
        if k == "repeat":
            v = self.eval_operand(fr, rv["op"])
            if rv["count"] is None:
                raise Undecided("repeat count")
            return Agg([v] * rv["count"])
        if k == "discriminant":
            v = self.read_place(self.eval_place(fr, rv["place"]))
            pt = self.eval_place(fr, rv["place"]).ty
            if isinstance(v, Enum):
                d = ty.get(pt)["variants"][v.variant].get("discr", v.variant)
                return bv.const(int(d), ty.size_bits(dest_ty))
            raise Undecided("discriminant of %r" % (v,))
        raise Undecided("rvalue %s %s" % (k, rv.get("debug", "")))

    # ------------------------------------------------------------------ joining of forked paths
    def join_value(self, c, a, b):
        if a is b:
            return a
        if a is UNDEF:
            return b
        if b is UNDEF:
            return a
        if isinstance(a, tuple) and isinstance(b, tuple):
            if len(a) != len(b):
                raise Undecided("join of different widths")
            return bv.ite(c, a, b)
        if isinstance(a, (FnVal, FnSel)) and isinstance(b, (FnVal, FnSel)):
            if isinstance(a, FnVal) and isinstance(b, FnVal) and a == b:
                return a
            la = a.alts if isinstance(a, FnSel) else [(ONE, a)]
            lb = b.alts if isinstance(b, FnSel) else [(ONE, b)]
            return FnSel([(bv.band(c, ci), fi) for ci, fi in la] + lb)
        if isinstance(a, Agg) and isinstance(b, Agg) and len(a.f) == len(b.f):
            return Agg(self.join_value(c, x, y) for x, y in zip(a.f, b.f))
        if isinstance(a, Enum) and isinstance(b, Enum) and a.variant == b.variant:
            return Enum(a.variant, [self.join_value(c, x, y) for x, y in zip(a.f, b.f)])
        if a == b:
            return a
        if isinstance(a, tuple) and isinstance(b, Agg) or isinstance(a, Agg) and isinstance(b, tuple):
            raise Undecided("join of flat and structured value")
        raise Undecided("join of %r and %r" % (a, b))

    # ------------------------------------------------------------------ calls
    def call_body(self, key, args):
        return self.call_instance(key, args, None, use_model=False)

    def call_instance(self, key, args, callee=None, use_model=True):
        """Evaluate instance `key` on argument values; returns the return value."""
        self.steps += 1
        if not (self.steps & 63):
            import time as _time
            if _time.time() > self.deadline:
                raise Undecided("time budget of one rule instance exhausted (interpretation did not finish)")
        if use_model:
            for rx, h in self._hook_rx:
                if rx.search(key):
                    self.hook_hits = getattr(self, "hook_hits", 0) + 1
                    return h(self, key, args, callee)
        inst = self.ins.get(key)
        if inst is None:
            raise Undecided("unknown instance %s" % key)
        d = inst["def"]
        m = self.find_model(d, key) if use_model else None
        if m is not None:
            return m(self, key, args, callee or {"inst": key, "def": d, "generic_args": inst.get("generic_args", [])})
        body = inst.get("body")
        if body is None:
            raise Undecided("no body and no model for %s" % key)
        if len(self.frames) > 200:
            raise Undecided("call depth")
        fr = Frame(key, inst, body)
        n = body["arg_count"]
        if self.defs.get(d, {}).get("def_kind") == "Closure" and len(args) == 2 and isinstance(args[1], Agg) \
                and 1 + len(args[1].f) == n:
            args = [args[0]] + list(args[1].f)
        if len(args) != n:
            # closure calls through Fn* traits pass (closure, (args tuple)): spread
            if len(args) == 2 and isinstance(args[1], Agg) and 1 + len(args[1].f) == n:
                args = [args[0]] + list(args[1].f)
            elif len(args) == 2 and isinstance(args[1], Agg) and len(args[1].f) == n and isinstance(args[0], (FnVal, Agg)):
                args = list(args[1].f)
            else:
                raise Undecided("arity mismatch calling %s: %d vs %d" % (key, len(args), n))
        for i, a in enumerate(args):
            fr.locals[i + 1].v = a
        self.frames.append(fr)
        try:
            return self.run(fr, 0)
        finally:
            self.frames.pop()

    def find_model(self, d, key):
        m = self.models.get(d)
        if m is not None:
            return m
        for pfx, f in self.models.get("__prefix__", ()):
            if d.startswith(pfx):
                return f
        return None

    def run(self, fr, bb):
        body = fr.body
        blocks = body["blocks"]
        ty = self.ty
        while True:
            self.steps += 1
            if self.steps > self.max_steps:
                raise Undecided("step budget exhausted in %s" % fr.key)
            blk = blocks[bb]
            for st in blk["stmts"]:
                k = st["k"]
                if k == "assign":
                    pl = self.eval_place(fr, st["place"])
                    v = self.eval_rvalue(fr, st["rv"], pl.ty)
                    self.write_place(pl, v)
                elif k == "set_discriminant":
                    pl = self.eval_place(fr, st["place"])
                    v = self.read_place(pl)
                    if isinstance(v, Enum):
                        self.write_place(pl, Enum(st["variant"], v.f))
                    else:
                        self.write_place(pl, Enum(st["variant"], ()))
                elif k == "intrinsic":
                    if st["name"] == "assume":
                        continue
                    if st["name"] == "copy_nonoverlapping":
                        src = self.eval_operand(fr, st["src"])
                        dst = self.eval_operand(fr, st["dst"])
                        cnt = bv.const_value(self.eval_operand(fr, st["count"]))
                        if cnt is None:
                            raise Undecided("copy_nonoverlapping with a symbolic count")
                        pl = st["src"].get("copy") or st["src"].get("move")
                        pt = self.ty.get(fr.body["locals"][pl["local"]])["pointee"] if pl is not None and not pl["proj"] else None
                        if pt is None:
                            raise Undecided("copy_nonoverlapping: element type")
                        nbits = cnt * self.ty.size_bits(pt)
                        if nbits:
                            self.region_write(dst, self.region_read(src, nbits))
                        continue
                    raise Undecided("statement intrinsic %s" % st["name"])
            t = blk["term"]
            k = t["k"]
            if k == "goto":
                bb = t["target"]
            elif k == "return":
                return fr.locals[0].v
            elif k == "call":
                args = [self.eval_operand(fr, a) for a in t["args"]]
                saved_dest = getattr(self, "dest_ty", None)
                try:
                    self.dest_ty = self.eval_place(fr, t["dest"]).ty
                except Undecided:
                    self.dest_ty = None
                if "callee" in t:
                    ce = t["callee"]
                    key = ce.get("inst")
                    if ce["kind"] == "intrinsic":
                        ret = self.intrinsic(ce, args, fr, t)
                    elif ce["kind"] == "virtual" or key is None:
                        raise Undecided("virtual/unresolved call %s" % ce["def"])
                    else:
                        ret = self.call_instance(key, args, ce)
                else:
                    f = self.eval_operand(fr, t["indirect"])
                    if isinstance(f, FnVal):
                        key = f.inst.get("inst") if isinstance(f.inst, dict) else f.inst
                        ret = self.call_instance(key, args, f.inst if isinstance(f.inst, dict) else None)
                    elif isinstance(f, FnSel):
                        ret = self.fork_calls(fr, f, args)
                    else:
                        raise Undecided("indirect call of %r" % (f,))
                if t["target"] is None:
                    raise Diverge(("call of diverging function", fr.key, t.get("span")))
                pl = self.eval_place(fr, t["dest"])
                self.write_place(pl, ret)
                bb = t["target"]
            elif k == "switch":
                d = self.eval_operand(fr, t["discr"])
                if isinstance(d, Enum):
                    raise Undecided("switch on enum value")
                cv = bv.const_value(d)
                if cv is not None:
                    nxt = t["otherwise"]
                    for val, tgt in t["cases"]:
                        if int(val) == cv:
                            nxt = tgt
                            break
                    bb = nxt
                else:
                    return self.fork(fr, t, d)
            elif k == "assert" and (t["msg"].startswith("misaligned") or t["msg"].startswith("null_deref")):
                bb = t["target"]      # debug-only UB checks on raw pointers; alignment is C16's structural rule
            elif k == "assert":
                c = self.eval_operand(fr, t["cond"])
                cv = bv.const_value(c)
                exp = 1 if t["expected"] else 0
                if cv is None:
                    cond_ok = c[0] if exp else c[0] ^ ONE
                    self.asserts.append({"inst": fr.key, "bb": bb, "kind": t["msg"], "cond": cond_ok,
                                         "span": t.get("span"), "path": list(self.pathcond)})
                elif cv != exp:
                    raise Diverge(("assertion %s fails" % t["msg"], fr.key, t.get("span")))
                bb = t["target"]
            elif k == "drop":
                bb = t["target"]
            elif k == "unreachable":
                raise Diverge(("unreachable", fr.key))
            else:
                raise Undecided("terminator %s in %s" % (k, fr.key))

    def fork(self, fr, t, d):
        """If-conversion of a switch on a non-constant discriminant."""
        targets = [(int(val), tgt) for val, tgt in t["cases"]]
        width = len(d)
        alts = []
        others = ONE
        for val, tgt in targets:
            c = bv.cmp_bit("eq", d, bv.const(val, width))
            alts.append((c, tgt))
            others = bv.band(others, c ^ ONE)
        alts.append((others, t["otherwise"]))
        if len(alts) > 6:
            raise Undecided("switch with %d symbolic alternatives" % len(alts))
        snap = self.snapshot()
        depth = len(self.frames)
        results = []
        for c, tgt in alts:
            if not c:
                continue
            self.restore(snap)
            self.pathcond.append(c)
            try:
                r = self.run(fr, tgt)
                results.append((c, r, self.snapshot()))
            except Diverge as dv:
                self.panics.append({"site": dv.site, "cond": c, "path": list(self.pathcond[:-1])})
            finally:
                self.pathcond.pop()
                del self.frames[depth:]
        if not results:
            raise Diverge(("all alternatives diverge", fr.key))
        # join from the last alternative backwards
        c0, r, st = results[-1]
        for c, r2, st2 in reversed(results[:-1]):
            r = self.join_value(c, r2, r)
            merged = {}
            for cell in snap:
                a, b = st2.get(cell, UNDEF), st.get(cell, UNDEF)
                merged[cell] = a if a is b else self.join_value(c, a, b)
            st = merged
        for cell in snap:
            if cell in st:
                cell.v = st[cell]
        return r

    def fork_calls(self, fr, fsel, args):
        """Call through a condition-dependent function value: every alternative is followed from the same
        state and the results and states are joined by if-then-else (as for a symbolic switch)."""
        alts = []
        earlier = ONE
        for c, fv in fsel.alts:
            eff = bv.band(earlier, c)
            earlier = bv.band(earlier, c ^ ONE)
            if eff:
                alts.append((eff, fv))
        if len(alts) > 6:
            raise Undecided("call through a function value with %d alternatives" % len(alts))
        snap = self.snapshot()
        depth = len(self.frames)
        results = []
        for c, fv in alts:
            self.restore(snap)
            self.pathcond.append(c)
            try:
                key = fv.inst.get("inst") if isinstance(fv.inst, dict) else fv.inst
                r = self.call_instance(key, args, fv.inst if isinstance(fv.inst, dict) else None)
                results.append((c, r, self.snapshot()))
            except Diverge as dv:
                self.panics.append({"site": dv.site, "cond": c, "path": list(self.pathcond[:-1])})
            finally:
                self.pathcond.pop()
                del self.frames[depth:]
        if not results:
            raise Diverge(("all alternatives diverge", fr.key))
        c0, r, st = results[-1]
        for c, r2, st2 in reversed(results[:-1]):
            r = self.join_value(c, r2, r)
            merged = {}
            for cell in snap:
                a, b = st2.get(cell, UNDEF), st.get(cell, UNDEF)
                merged[cell] = a if a is b else self.join_value(c, a, b)
            st = merged
        for cell in snap:
            if cell in st:
                cell.v = st[cell]
        return r

    # ------------------------------------------------------------------ rustc intrinsics
    def intrinsic(self, ce, args, fr, t):
        name = ce["intrinsic"]
        ty = self.ty
        ga = ce["generic_args"]
        if name in ("rotate_left", "rotate_right"):
            k = bv.const_value(args[1])
            if k is None:
                raise Undecided("symbolic rotate amount")
            return bv.rotl(args[0], k) if name == "rotate_left" else bv.rotr(args[0], k)
        if name == "wrapping_add":
            return bv.add(args[0], args[1])
        if name == "wrapping_sub":
            return bv.sub(args[0], args[1])
        if name == "wrapping_mul":
            return bv.mul(args[0], args[1])
        if name == "bswap":
            return bv.bswap(args[0])
        if name == "bitreverse":
            return tuple(reversed(args[0]))
        if name in ("ctpop", "cttz", "ctlz", "cttz_nonzero", "ctlz_nonzero"):
            x = args[0]
            w = len(x)
            cv = bv.const_value(x)
            if cv is not None:
                if name == "ctpop":
                    r = bin(cv).count("1")
                elif name.startswith("cttz"):
                    r = w if cv == 0 else (cv & -cv).bit_length() - 1
                else:
                    r = w - cv.bit_length()
                return bv.const(r, 32)
            if name == "ctpop":
                return bv.lin(32, [(bv.zext((b,), 32), 1) for b in x])
            # count of zeros below the lowest / above the highest set bit: priority chain over the bits
            order = x if name.startswith("cttz") else tuple(reversed(x))
            res = bv.const(w, 32)
            for i in reversed(range(w)):
                res = bv.ite(order[i], bv.const(i, 32), res)
            return res
        if name in ("size_of", "align_of", "min_align_of"):
            d = ty.get(ga[0]["ty"])
            return bv.const(d["size"] if name == "size_of" else d["align"], 64)
        if name in ("unlikely", "likely", "black_box"):
            return args[0]
        if name in ("assume", "cold_path", "assert_inhabited", "assert_zero_valid",
                    "assert_mem_uninitialized_valid"):
            return Agg(())
        if name == "ub_checks" or name == "contract_checks" or name == "overflow_checks":
            return (ZERO,)
        if name == "transmute":
            return self.cast("transmute", args[0], ga[0]["ty"], ga[1]["ty"])
        if name in ("offset", "arith_offset"):
            n = bv.const_value(args[1])
            if n is None:
                raise Undecided("symbolic pointer offset")
            bits = len(args[1])
            if n >> (bits - 1):
                n -= 1 << bits
            return self.ptr_offset(args[0], n, ga[0]["ty"] if ga else None)
        if name == "read_via_copy":
            return self.deref_read(args[0], ga[0]["ty"])
        if name == "write_via_move":
            self.deref_write(args[0], ga[0]["ty"], args[1])
            return Agg(())
        if name == "unchecked_sub":
            return bv.sub(args[0], args[1])
        if name == "unchecked_add":
            return bv.add(args[0], args[1])
        if name == "unchecked_shl" or name == "unchecked_shr":
            k = bv.const_value(args[1])
            if k is None:
                raise Undecided("symbolic shift")
            return bv.shl(args[0], k) if name.endswith("shl") else bv.lshr(args[0], k)
        if name == "ptr_metadata":
            a = args[0]
            if isinstance(a, Ptr) and a.meta is not None:
                return bv.const(a.meta, 64)
            return Agg(())
        if name in ("saturating_add", "saturating_sub"):
            bits, signed = self.ty.int_info(ga[0]["ty"])
            if signed:
                raise Undecided("signed %s" % name)
            if name == "saturating_add":
                return bv.ite(bv.carry_add(args[0], args[1]), bv.const(-1, bits), bv.add(args[0], args[1]))
            return bv.ite(bv.cmp_bit("ult", args[0], args[1]), bv.const(0, bits), bv.sub(args[0], args[1]))
        if name == "raw_eq":
            t = ga[0]["ty"]
            x = self.to_bits(self.deref_read(args[0], t), t)
            y = self.to_bits(self.deref_read(args[1], t), t)
            return (bv.cmp_bit("eq", x, y),)
        if name == "compare_bytes":
            raise Undecided("compare_bytes")
        if name == "three_way_compare":
            return self.binop("cmp", args[0], args[1], ga[0]["ty"])
        raise Undecided("intrinsic %s" % name)

    def deref_read(self, p, t):
        if not isinstance(p, Ptr):
            raise Undecided("deref_read of %r" % (p,))
        if p.idx is not None:
            if p.ety == t:
                pl = Place(p.cell, p.path + (("i", p.idx, None),), t)
            else:
                pl = Place(p.cell, p.path, t, cast=(p.idx, p.ety))
        else:
            pl = Place(p.cell, p.path, t)
        return self.read_place(pl)

    def deref_write(self, p, t, v):
        if not isinstance(p, Ptr):
            raise Undecided("deref_write of %r" % (p,))
        if p.idx is not None:
            if p.ety == t:
                pl = Place(p.cell, p.path + (("i", p.idx, None),), t)
            else:
                pl = Place(p.cell, p.path, t, cast=(p.idx, p.ety))
        else:
            pl = Place(p.cell, p.path, t)
        self.write_place(pl, v)

    # ------------------------------------------------------------------ slices as python lists
    def view_stride(self, ety, vty):
        if vty is None or vty == ety:
            return 1
        es, vs = self.ty.size_bits(ety), self.ty.size_bits(vty)
        if es == 0 or vs % es:
            raise Undecided("slice view granularity %s over %s" % (vty, ety))
        return vs // es

    def slice_elems(self, p):
        """Elements designated by a fat slice pointer (list of values)."""
        if not isinstance(p, Ptr) or p.idx is None or p.meta is None:
            raise Undecided("slice_elems of %r" % (p,))
        arr = self.read_path(p.cell.v, p.path)
        if isinstance(arr, tuple) and p.ety is not None:
            es = self.ty.size_bits(p.ety)
            arr = Agg(self.from_bits(arr[i * es:(i + 1) * es], p.ety) for i in range(len(arr) // es))
        if not isinstance(arr, Agg):
            raise Undecided("slice over %r" % (arr,))
        k = self.view_stride(p.ety, p.vty)
        if p.idx + p.meta * k > len(arr.f):
            raise Diverge(("slice exceeds its allocation", "memory"))
        if k == 1:
            return list(arr.f[p.idx:p.idx + p.meta])
        out = []
        for i in range(p.meta):
            bits = bv.concat(self.to_bits(x, p.ety) for x in arr.f[p.idx + i * k:p.idx + (i + 1) * k])
            out.append(self.from_bits(bits, p.vty))
        return out

    def slice_store(self, p, values):
        arr = self.read_path(p.cell.v, p.path)
        if not isinstance(arr, Agg):
            raise Undecided("slice_store over %r" % (arr,))
        f = list(arr.f)
        k = self.view_stride(p.ety, p.vty)
        if k != 1:
            es = self.ty.size_bits(p.ety)
            flat = []
            for v in values:
                bits = self.to_bits(v, p.vty)
                flat.extend(self.from_bits(bits[j * es:(j + 1) * es], p.ety) for j in range(k))
            values = flat
        if p.idx + len(values) > len(f):
            raise Diverge(("store exceeds allocation", "memory"))
        f[p.idx:p.idx + len(values)] = values
        p.cell.v = self.write_path(p.cell.v, p.path, Agg(f))

    def region_read(self, p, nbits):
        """nbits of memory starting at the element the thin pointer designates (flat, little-endian); the
        read must stay inside the backing run."""
        if not isinstance(p, Ptr):
            raise Undecided("raw read through %r" % (p,))
        if p.idx is None:
            t = None
            v = self.read_path(p.cell.v, p.path)
            if isinstance(v, tuple):
                bits = v
            else:
                raise Undecided("raw read of a structured value")
            if nbits > len(bits):
                raise Diverge(("raw copy reads past the end of the object", "memory"))
            return bits[:nbits]
        arr = self.read_path(p.cell.v, p.path)
        if not isinstance(arr, Agg) or p.ety is None:
            raise Undecided("raw read over %r" % (arr,))
        es = self.ty.size_bits(p.ety)
        need = -(-nbits // es) if es else 0
        if p.idx + need > len(arr.f) or p.idx < 0:
            raise Diverge(("raw copy reads %d bytes but only %d remain in the source" % (nbits // 8, (len(arr.f) - p.idx) * es // 8), "memory"))
        bits = bv.concat(self.to_bits(x, p.ety) for x in arr.f[p.idx:p.idx + need])
        return bits[:nbits]

    def region_write(self, p, bits):
        if not isinstance(p, Ptr) or p.idx is None or p.ety is None:
            raise Undecided("raw write through %r" % (p,))
        arr = self.read_path(p.cell.v, p.path)
        if not isinstance(arr, Agg):
            raise Undecided("raw write over %r" % (arr,))
        es = self.ty.size_bits(p.ety)
        nbits = len(bits)
        need = -(-nbits // es) if es else 0
        if p.idx + need > len(arr.f) or p.idx < 0:
            raise Diverge(("raw copy writes %d bytes but only %d remain in the destination" % (nbits // 8, (len(arr.f) - p.idx) * es // 8), "memory"))
        f = list(arr.f)
        if nbits % es:
            tail = self.to_bits(f[p.idx + need - 1], p.ety)
            bits = tuple(bits) + tail[nbits % es:]
        for j in range(need):
            f[p.idx + j] = self.from_bits(tuple(bits[j * es:(j + 1) * es]), p.ety)
        p.cell.v = self.write_path(p.cell.v, p.path, Agg(f))

    def subslice(self, p, start, ln):
        return Ptr(p.cell, p.path, idx=p.idx + start * self.view_stride(p.ety, p.vty), meta=ln, ety=p.ety, vty=p.vty)

    def elem_ptr(self, p, i):
        """Thin pointer to element i of the slice p (view-aware)."""
        return Ptr(p.cell, p.path, idx=p.idx + i * self.view_stride(p.ety, p.vty), meta=None, ety=p.ety,
                   vty=p.vty if (p.vty is not None and p.vty != p.ety) else None)
