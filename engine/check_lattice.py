"""C20 / E4: the type checker decides every point of every crate's declared feature lattice
(`cargo check` on the stable toolchain, sources taken from /repo's working tree)."""
import itertools
import json
import os
import shutil
import subprocess
import tempfile

REPO = "/repo"


def metadata():
    r = subprocess.run(["cargo", "metadata", "--offline", "--format-version", "1", "--no-deps"],
                       cwd=REPO, capture_output=True, text=True)
    if r.returncode != 0:
        raise RuntimeError("cargo metadata failed: " + r.stderr[-1000:])
    return json.loads(r.stdout)


def lattice(pkg):
    """All subsets of the declared features (implicit optional-dependency features included),
    except `default` itself (it is just a name for a subset)."""
    feats = sorted(k for k in pkg["features"] if k != "default")
    pts = []
    for n in range(len(feats) + 1):
        for sub in itertools.combinations(feats, n):
            pts.append(list(sub))
    return feats, pts


def check_point(pkg, feats, target_dir):
    cmd = ["cargo", "check", "--offline", "--quiet", "-p", pkg["name"], "--no-default-features"]
    if feats:
        cmd += ["--features", ",".join(feats)]
    env = dict(os.environ)
    env["CARGO_TARGET_DIR"] = target_dir
    env["CARGO_NET_OFFLINE"] = "true"
    r = subprocess.run(cmd, cwd=REPO, capture_output=True, text=True, env=env)
    err = ""
    if r.returncode != 0:
        lines = [l for l in r.stderr.splitlines() if l.startswith("error")]
        err = "; ".join(lines[:3])[:400] or r.stderr[-300:]
    return r.returncode == 0, err


def run(report, tier):
    md = metadata()
    pkgs = sorted(md["packages"], key=lambda p: p["name"])
    target = tempfile.mkdtemp(prefix="verif-lattice-")
    total = 0
    try:
        for pkg in pkgs:
            feats, pts = lattice(pkg)
            if tier == "quick":
                # every crate with defaults off, with each single feature, and with everything on
                sel = [p for p in pts if len(p) <= 1 or len(p) == len(feats)]
            else:
                sel = pts
            for p in sel:
                total += 1
                ok, err = check_point(pkg, p, target)
                key = "%s[%s]" % (pkg["name"], ",".join(p))
                if ok:
                    report.ok("R20.1", key, sample={"crate": pkg["name"], "features": p} if len(report.samples) < 8 else None)
                else:
                    report.violated("R20.1", key, "%s does not build with --no-default-features --features '%s': %s"
                                    % (pkg["name"], ",".join(p), err))
            report.extra.setdefault("lattice", {})[pkg["name"]] = {"features": feats, "points": len(pts), "checked": len(sel)}
    finally:
        shutil.rmtree(target, ignore_errors=True)
    return total
