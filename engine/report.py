"""Outcome discipline shared by all checks: HOLDS / VIOLATED / UNDECIDED per rule instance,
floors, known findings, replay files, evidence files (see DESIGN.md section 0)."""
import json
import os
import sys
import time

VERIF = os.path.dirname(os.path.dirname(os.path.abspath(__file__)))


def load_known():
    p = os.path.join(VERIF, "known_findings.json")
    if not os.path.exists(p):
        return []
    with open(p) as fh:
        return json.load(fh)["findings"]


class Report:
    def __init__(self, prop, tier, level, seed=0):
        self.prop = prop
        self.tier = tier
        self.level = level
        self.seed = seed
        self.t0 = time.time()
        self.holds = []        # (rule, key)
        self.violations = []   # dict(rule,key,what,detail)
        self.undecided = []    # dict(rule,key,why)
        self.floors = []       # (name, measured, floor)
        self.samples = []
        self.extra = {}
        self.assumptions = []
        self.notes = []
        self.rule_counts = {}

    # ---- recording
    def ok(self, rule, key, sample=None):
        self.holds.append((rule, key))
        self.rule_counts[rule] = self.rule_counts.get(rule, 0) + 1
        if sample is not None and len(self.samples) < 12:
            self.samples.append(sample)

    def violated(self, rule, key, what, detail=None, graphs=None, boundary=None):
        """graphs=(got, expected): the differing value graphs; a concrete distinguishing assignment is
        searched (on the graphs, never on repository code).  With a witness the verdict is definite and the
        witness goes into the replay file; without one the instance is UNDECIDED (the normal forms differ but
        may denote the same function)."""
        if any(v["key"] == "%s:%s" % (rule, key) for v in self.violations):
            return
        if boundary is not None:
            # modular rule: the expected side uses an uninterpreted symbol for a function of the repository;
            # that is only meaningful if the code under analysis reached that function as often as expected
            it, need = boundary
            hits = getattr(it, "hook_hits", 0)
            if hits < need:
                self.undecide(rule, key, "the modular boundary was met %d time(s), %d expected: the code no longer calls the function this rule abstracts, so the rule cannot decide (%s)" % (hits, need, what[:160]))
                return
        if graphs is not None:
            from . import bv
            w = bv.find_witness(graphs[0], graphs[1], seed=self.seed)
            if w is None:
                self.undecide(rule, key, "normal forms differ but no distinguishing assignment was found in 18 trials (%s)" % what[:200])
                return
            detail = dict(detail or {}, witness=w)
            what = what + " [witness: output bit %s is %s, reference %s, for inputs %s]" % (
                w["index"], w["got"], w["expected"], ", ".join("%s=%s" % (k, v[:22]) for k, v in list(w["inputs"].items())[:4]))
        self.violations.append({"rule": rule, "key": "%s:%s" % (rule, key), "what": what, "detail": detail})

    def undecide(self, rule, key, why):
        self.undecided.append({"rule": rule, "key": "%s:%s" % (rule, key), "why": why})

    def floor(self, name, measured, floor):
        self.floors.append((name, measured, floor))

    def note(self, s):
        self.notes.append(s)

    # ---- finishing
    def finish(self, explanation, trusted_base=None, coverage_extra=None):
        known = [k for k in load_known() if k["property"] == self.prop and k.get("status") == "known"]
        known_keys = {k["key"]: k for k in known}
        new_viol = []
        matched = []
        for v in self.violations:
            k = known_keys.get(v["key"])
            if k is not None:
                matched.append((v, k))
            else:
                new_viol.append(v)
        floor_fail = [(n, m, f) for (n, m, f) in self.floors if m < f]
        out_lines = []
        for v, k in matched:
            out_lines.append("KNOWN-FINDING: property=%s %s [%s]" % (self.prop, k["what"], v["key"]))
        rc = 0
        replay_dir = os.path.join(VERIF, "evidence", "replay")
        os.makedirs(replay_dir, exist_ok=True)
        idx = 0
        for v in new_viol:
            idx += 1
            rp = os.path.join(replay_dir, "%s-%d.json" % (self.prop, idx))
            with open(rp, "w") as fh:
                json.dump({"property": self.prop, "kind": "violation", **v}, fh, indent=1, default=str)
            out_lines.append("VIOLATION property=%s replay=%s" % (self.prop, rp))
            out_lines.append("  rule %s instance %s: %s" % (v["rule"], v["key"], v["what"]))
            rc = 1
        if self.undecided or floor_fail:
            idx += 1
            rp = os.path.join(replay_dir, "%s-%d.json" % (self.prop, idx))
            with open(rp, "w") as fh:
                json.dump({"property": self.prop, "kind": "inconclusive", "undecided": self.undecided,
                           "floors_missed": floor_fail}, fh, indent=1, default=str)
            for u in self.undecided[:20]:
                out_lines.append("INCONCLUSIVE %s: %s" % (u["key"], u["why"]))
            for (n, m, f) in floor_fail:
                out_lines.append("INCONCLUSIVE floor %s: measured %d < floor %d" % (n, m, f))
            out_lines.append("VIOLATION property=%s replay=%s" % (self.prop, rp))
            rc = 1
        obligations = len(self.holds) + len(self.violations) + len(self.undecided)
        cov = {
            "explanation": explanation,
            "obligations": obligations,
            "discharged": len(self.holds),
            "known_findings_reported": len(matched),
            "new_violations": len(new_viol),
            "undecided": len(self.undecided),
            "rule_instances": self.rule_counts,
            "floors": [{"name": n, "measured": m, "floor": f} for (n, m, f) in self.floors],
            "samples": self.samples[:12] if self.samples else [{"note": "no instance sampled"}],
            "trusted_base": trusted_base or [],
            "checker_cmd": "./vcheck %s --tier %s" % (self.prop, self.tier),
            "exhaustive": False,
        }
        if self.level == "translation_validation":
            cov["programs"] = obligations
            cov["disagreements_checked"] = len(self.violations)
        if self.notes:
            cov["notes"] = self.notes
        if coverage_extra:
            cov.update(coverage_extra)
        cov.update(self.extra)
        ev = {
            "property_id": self.prop,
            "tier": self.tier,
            "seed": self.seed,
            "level": self.level,
            "coverage": cov,
            "assumptions": self.assumptions,
            "wall_s": round(time.time() - self.t0, 2),
            "violations": len(new_viol) + (1 if (self.undecided or floor_fail) else 0),
        }
        os.makedirs(os.path.join(VERIF, "evidence"), exist_ok=True)
        with open(os.path.join(VERIF, "evidence", self.prop + ".json"), "w") as fh:
            json.dump(ev, fh, indent=1, default=str)
        for l in out_lines:
            print(l)
        print("%s %s: %d obligations, %d discharged, %d known findings, %d new violations, %d undecided, %.1fs"
              % (self.prop, self.tier, obligations, len(self.holds), len(matched), len(new_viol),
                 len(self.undecided), time.time() - self.t0))
        return rc
