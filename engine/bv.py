"""E2 term domain: hash-consed bit-level value graphs with canonical normal forms.

A *bit* is a frozenset of atom ids, meaning the XOR of those atoms; atom 0 is the constant 1, so
frozenset() is 0 and frozenset({0}) is 1.  A bit-vector (BV) is a tuple of bits, least significant
first.  Everything GF(2)-affine (xor, not, rotates, shifts, shuffles, byte swaps, extract/concat,
masks with constants) is therefore in a canonical form by construction.  Non-linear operations
create hash-consed atoms:

  and   : AND of two (canonical) bits, operands sorted
  sb/cin: bits of integer linear forms  sum(coeff_k * operand_k) + const.  A form is a CARRY CHAIN: node i
          stands for the integer L_i = contribution of all operand bits below position i; bit i of the
          sum is parity(position i) xor bit i of L_i (atom cin(node i)).  Nodes are hash-consed per
          position over the multiset of (operand bit, coefficient), so + is associative/commutative,
          x+k-k = x, a sum and its truncation share their low bits, and a limb-wise addition with carry
          has the same bits as the one wide addition
  ite   : if-then-else on a condition bit
  cmp   : comparison of two bit-vectors
  fn    : output bit of an uninterpreted function (modular mode: S-boxes, Threefish, ...)
  in    : input bit

Only the identities listed in DESIGN.md section 2.3 are used; equal normal forms imply equal
functions.  `evaluate` interprets a graph under an assignment of the inputs (used for witnesses and
for validating the reference models against published test vectors) - it never touches /repo code.
"""
import sys

sys.setrecursionlimit(100000)

ONE_ATOM = 0
ZERO = frozenset()
ONE = frozenset((0,))

_atoms = [("one",)]          # id -> payload
_atom_index = {("one",): 0}  # payload -> id


def reset():
    """Forget all atoms (start of an independent analysis)."""
    global _atoms, _atom_index, _ch_nodes, _ch_index, _sum_index, _lin_view
    _atoms = [("one",)]
    _atom_index = {("one",): 0}
    _ch_nodes = [(None, frozenset(), 0, 0, 0, 0)]
    _ch_index = {}
    _sum_index = {}
    _lin_view = {}
    global _lin_strip, _int_meaning
    _lin_strip = {}
    _int_meaning = {}
    global _sum_nodes
    _sum_nodes = []
    global _sum_carry, _ent_cache
    _sum_carry = {}
    _ent_cache = {}
    global _fn_apps, _fn_app_list
    _fn_apps = {}
    _fn_app_list = []


def atom(payload):
    i = _atom_index.get(payload)
    if i is None:
        i = len(_atoms)
        _atoms.append(payload)
        _atom_index[payload] = i
    return i


def atom_payload(i):
    return _atoms[i]


def n_atoms():
    return len(_atoms)


def abit(payload):
    return frozenset((atom(payload),))


# ---------------------------------------------------------------- constants / inputs

def const(value, width):
    value &= (1 << width) - 1
    return tuple(ONE if (value >> i) & 1 else ZERO for i in range(width))


def is_const(bv):
    for b in bv:
        if b and b != ONE:
            return False
    return True


def const_value(bv):
    """Integer value of a constant bit-vector, else None."""
    v = 0
    for i, b in enumerate(bv):
        if not b:
            continue
        if b == ONE:
            v |= 1 << i
        else:
            return None
    return v


def inp(name, width):
    return tuple(abit(("in", name, i)) for i in range(width))


# ---------------------------------------------------------------- bitwise

def bxor(a, b):
    return a ^ b


def bnot(a):
    return a ^ ONE


def _and_operands(x):
    """Operands of a conjunction: a single and-atom contributes its operand set; the complement of a
    disjunction, 1 ^ p ^ q ^ (p & q) = !(p | q), contributes !p and !q (De Morgan), so that
    `(a ^ b) | (c ^ d) == 0` and `a == b && c == d` have one normal form."""
    if len(x) == 1:
        (a,) = x
        p = _atoms[a]
        if p[0] == "and":
            return p[1]
    elif ONE_ATOM in x and len(x) >= 4:
        for a in x:
            if a:
                p = _atoms[a]
                if p[0] == "and" and len(p[1]) == 2:
                    u, v = tuple(p[1])
                    if x == (ONE ^ u ^ v ^ frozenset((a,))):
                        return _and_operands(u ^ ONE) | _and_operands(v ^ ONE)
    return frozenset((x,))


def band(a, b):
    if not a or not b:
        return ZERO
    if a == ONE:
        return b
    if b == ONE:
        return a
    if a == b:
        return a
    if a == (b ^ ONE):
        return ZERO
    ops = _and_operands(a) | _and_operands(b)
    for x in ops:
        if (x ^ ONE) in ops:
            return ZERO
    if len(ops) == 1:
        (x,) = ops
        return x
    return abit(("and", ops))


def band_n(bits):
    """n-ary conjunction (associative, commutative, idempotent by construction)."""
    ops = set()
    for b in bits:
        if not b:
            return ZERO
        if b == ONE:
            continue
        ops |= _and_operands(b)
    for x in ops:
        if (x ^ ONE) in ops:
            return ZERO
    if not ops:
        return ONE
    if len(ops) == 1:
        (x,) = ops
        return x
    return abit(("and", frozenset(ops)))


def bor(a, b):
    if not a:
        return b
    if not b:
        return a
    if a == ONE or b == ONE:
        return ONE
    if a == b:
        return a
    return a ^ b ^ band(a, b)


def _bitkey(b):
    return tuple(sorted(b))


def bite(c, a, b):
    """c ? a : b on single bits."""
    if c == ONE:
        return a
    if not c:
        return b
    if a == b:
        return a
    if ONE_ATOM in c:
        # canonical polarity of the condition: ite(!c, a, b) = ite(c, b, a)
        return bite(c ^ ONE, b, a)
    if a == ONE and not b:
        return c
    if not a and b == ONE:
        return c ^ ONE
    if not b:
        return band(c, a)
    if not a:
        return band(c ^ ONE, b)
    if a == ONE:
        return bor(c, b)
    if b == ONE:
        return bor(c ^ ONE, a)
    return abit(("ite", c, a, b))


def xor(a, b):
    assert len(a) == len(b), (len(a), len(b))
    return tuple(x ^ y for x, y in zip(a, b))


def and_(a, b):
    assert len(a) == len(b)
    return tuple(band(x, y) for x, y in zip(a, b))


def or_(a, b):
    assert len(a) == len(b)
    return tuple(bor(x, y) for x, y in zip(a, b))


def not_(a):
    return tuple(x ^ ONE for x in a)


def _lin_terms(v):
    view = _lin_view.get(v)
    if view is not None:
        return dict(view[1]), view[2]
    cv = const_value(v)
    if cv is not None:
        return {}, cv
    return {v: 1}, 0


def ite(c, a, b):
    """Vector if-then-else.  If both sides are linear forms over the same operands that differ only by
    a constant d, the result is the linear form  b + d*zext(c)  (so `if c {x += 1}` and
    `x += c as T` have one normal form)."""
    assert len(a) == len(b)
    a, b = tuple(a), tuple(b)
    w = len(a)
    if a == b:
        return a
    if c == ONE:
        return a
    if not c:
        return b
    if w > 1:
        ta, ca = _lin_terms(a)
        tb, cb = _lin_terms(b)
        if ta == tb and (ta or (ca != cb)):
            d = (ca - cb) & ((1 << w) - 1)
            if d:
                cond = c
                if ONE_ATOM in cond:          # canonical polarity: ite(!c, a, b) = ite(c, b, a)
                    cond = cond ^ ONE
                    tb, cb, d = ta, ca, (-d) & ((1 << w) - 1)
                terms = list(tb.items()) + [((cond,) + (ZERO,) * (w - 1), d)]
                return lin(w, terms, cb)
    return tuple(bite(c, x, y) for x, y in zip(a, b))


def shl(a, k):
    w = len(a)
    if k >= w:
        return (ZERO,) * w
    return (ZERO,) * k + a[: w - k]


def lshr(a, k):
    w = len(a)
    if k >= w:
        return (ZERO,) * w
    return a[k:] + (ZERO,) * k


def ashr(a, k):
    w = len(a)
    s = a[-1]
    if k >= w:
        return (s,) * w
    return a[k:] + (s,) * k


def rotr(a, k):
    w = len(a)
    k %= w
    return a[k:] + a[:k]


def rotl(a, k):
    w = len(a)
    return rotr(a, (w - k) % w)


def zext(a, w):
    if len(a) >= w:
        return a[:w]
    return a + (ZERO,) * (w - len(a))


def sext(a, w):
    if len(a) >= w:
        return a[:w]
    return a + (a[-1],) * (w - len(a))


def concat(parts):
    """Concatenate little-end first."""
    out = ()
    for p in parts:
        out += tuple(p)
    return out


def bswap(a):
    assert len(a) % 8 == 0
    n = len(a) // 8
    return concat(a[8 * (n - 1 - i): 8 * (n - i)] for i in range(n))


# ---------------------------------------------------------------- modular linear forms

# Carry chains.  Node id -> (parent, entries, cbit, pos, lo, hi): the node at position `pos` denotes the
# integer L_pos = L_parent + 2^(pos-1) * (sum(coeff*bit for (bit, coeff) in entries) + cbit); node 0 is the
# empty sum at position 0.  lo/hi bound L_pos over all assignments.
_ch_nodes = [(None, frozenset(), 0, 0, 0, 0)]
_ch_index = {}
_sum_index = {}   # (width, frozenset((operand, coeff)), const) -> bits
_lin_view = {}    # bits of a lin() result -> (width, frozenset((operand, coeff)), const)
_lin_strip = {}   # bits of a lin() result without their constant-zero top bits -> (key, end node)
_int_meaning = {} # bit -> (cb, node, vnode): the bit's integer value is cb + carry(node) - carry(vnode)


def _as_sum(bv):
    """Linear view (terms, const) of a vector previously produced by lin(), else None."""
    v = _lin_view.get(bv)
    if v is None:
        return None
    return v[1], v[2]


def _ch_extend(parent, entries, cbit):
    key = (parent, entries, cbit)
    nid = _ch_index.get(key)
    if nid is None:
        p = _ch_nodes[parent]
        pos = p[3]
        neg = 0
        posv = 0
        for _, k in entries:
            if k < 0:
                neg += k
            else:
                posv += k
        nid = len(_ch_nodes)
        _ch_nodes.append((parent, entries, cbit, pos + 1, p[4] + ((neg + cbit) << pos), p[5] + ((posv + cbit) << pos)))
        _ch_index[key] = nid
    return nid


def _cin_bit(nid):
    """Bit `pos` of L(nid), the carry into position pos: a constant when the bounds decide it."""
    n = _ch_nodes[nid]
    pos, lo, hi = n[3], n[4], n[5]
    if (lo >> pos) == (hi >> pos):
        return ONE if (lo >> pos) & 1 else ZERO
    return abit(("cin", nid))


def _tight(nid):
    """L(nid) < 2^(pos+1) and >= 0: the carry bit is the whole quotient L / 2^pos."""
    n = _ch_nodes[nid]
    return n[4] >= 0 and n[5] < (1 << (n[3] + 1))


def _carry_operand(t):
    """If the operand is zext(carry bit of a tight chain node) return that node id, else None."""
    b = t[0]
    if len(b) != 1:
        return None
    for x in t[1:]:
        if x:
            return None
    (a,) = b
    p = _atoms[a]
    if p[0] == "cin" and _tight(p[1]):
        return p[1]
    return None


def _strip(t):
    n = len(t)
    while n and not t[n - 1]:
        n -= 1
    return t[:n]


def _single_cin(b):
    """Node id if the bit is exactly one carry atom, else None."""
    if len(b) != 1:
        return None
    (a,) = b
    p = _atoms[a]
    return p[1] if p[0] == "cin" else None


_EMPTY = frozenset()
_PREFIX_MARKS = frozenset((8, 16, 32, 64, 128))
_sum_carry = {}   # key -> carry-out bit of the sum (bit `width` of the (width+1)-bit sum of the zero-extended operands)


_ent_cache = {}   # key -> (entries per position before normalisation, constant): for incremental construction


def _realise(width, acc, c, nowrap=False, carry=False, base=None):
    """Deterministic bit representation of the canonical linear form (acc: operand->coeff, c).
    nowrap: the caller knows that the integer sum of the ORIGINAL operands lies in [0, 2^width).
    carry: also return bit `width` of the sum of the zero-extended operands (coefficients as given)."""
    mask = (1 << width) - 1
    half = 1 << (width - 1)
    c &= mask
    acc = {t: k & mask for t, k in acc.items() if k & mask}
    if not carry:
        if not acc:
            return const(c, width)
        if len(acc) == 1 and c == 0:
            (t, k), = acc.items()
            if k == 1:
                return t
    key = (width, frozenset(acc.items()), c)
    hit = _sum_index.get(key)
    if hit is not None and (not carry or key in _sum_carry):
        return (hit, _sum_carry[key]) if carry else hit
    total = width + 1 if carry else width
    start = 0
    items = acc.items()
    ent = None
    cached = _ent_cache.get(base) if (base is not None and not carry) else None
    if cached is not None:
        # incremental construction: the per-position entries of a recent sum plus/minus a few operands
        # (long accumulations such as x0 += y over many rounds would otherwise cost operands x width each)
        bacc = dict(base[1])
        delta = []
        for t, k in acc.items():
            kb = bacc.pop(t, 0)
            if k != kb:
                delta.append((t, k, kb))
        for t, kb in bacc.items():
            delta.append((t, 0, kb))
        if len(delta) <= 8:
            ent0, cadd0 = cached
            ent = [dict(d) if d else None for d in ent0]
            cadd = cadd0 - base[2] + c
            items = []
            for t, k, kb in delta:
                if k >= half and width > 1:
                    k -= 1 << width
                if kb >= half and width > 1:
                    kb -= 1 << width
                items.append((t, k - kb))
    if ent is None:
        ent = [None] * total
        cadd = c
        signed = True
    else:
        signed = False                          # the deltas are already signed
    cpos = {}                                   # position -> constant contribution of operand bits that are 1
    for t, k in items:
        if signed and k >= half and width > 1 and not carry:
            k -= 1 << width                     # signed representative: x - y has coefficient -1 at any width
        p = -1
        for b in t:
            p += 1
            if not b:
                continue
            if b == ONE:
                cadd += k << p
                cpos[p] = cpos.get(p, 0) + k
                continue
            kk = k
            if ONE_ATOM in b:                   # complemented bit: !b = 1 - b
                cadd += k << p
                cpos[p] = cpos.get(p, 0) + k
                b = b ^ ONE
                kk = -k
            d = ent[p]
            if d is None:
                ent[p] = {b: kk}
            else:
                d[b] = d.get(b, 0) + kk
    if not carry and len(acc) >= 6:
        _ent_cache[key] = ([dict(d) if d else None for d in ent], cadd)
        if len(_ent_cache) > 96:
            _ent_cache.pop(next(iter(_ent_cache)))
    # the carry of another (tight) sum with weight one at position 0: continue that sum's chain, so that a
    # limb-wise addition with carry has the bits of the one wide addition
    d0 = ent[0]
    if d0:
        cands = []
        for b, k in d0.items():
            if k == 1:
                n = _single_cin(b)
                if n is not None and _tight(n):
                    cands.append((n, b))
        if len(cands) == 1:
            start = cands[0][0]
            del d0[cands[0][1]]
    node = start
    out = []
    dropped = False
    nodes = _ch_nodes
    chindex = _ch_index
    atoms = _atoms
    aindex = _atom_index
    crem = cadd           # constant still to be added at positions >= p (exact integer, in units of 2^p)
    marks = []
    crossed = set()         # prefix lengths across which an even weight was moved up (their carry is not in the chain)
    for p in range(total):
        if p in _PREFIX_MARKS and not start and not carry and cached is None and p not in crossed:
            marks.append((p, node, crem))
        if node:
            # a carry-in that the bounds decide is a constant: fold it into the constant and restart the
            # chain, so that bits which no lower operand bit can influence do not depend on them
            n = nodes[node]
            q = n[4] >> n[3]
            if q == n[5] >> n[3]:
                crem += q
                node = 0
        d = ent[p]
        if d:
            for k in d.values():
                if k != 1:
                    break
            else:
                k = 1
            if k != 1:
                for b, k in list(d.items()):
                    if k == 0:
                        del d[b]
                    elif not (k & 1):
                        # even weight: the same bit with an odd weight at a higher position
                        m = (k & -k).bit_length() - 1
                        del d[b]
                        for pm in _PREFIX_MARKS:
                            if p < pm <= p + m:
                                crossed.add(pm)
                        if p + m < total:
                            d2 = ent[p + m]
                            if d2 is None:
                                ent[p + m] = {b: k >> m}
                            else:
                                d2[b] = d2.get(b, 0) + (k >> m)
                        else:
                            dropped = True          # weight 2^width or more: invisible mod 2^width
        cb = crem & 1
        crem >>= 1
        par = ONE if cb else ZERO
        if d:
            if len(d) <= 3:
                for b in d:
                    par = par ^ b
            else:
                ps = set(par)
                for b in d:
                    ps ^= b
                par = frozenset(ps)
            fs = frozenset(d.items())
        else:
            fs = _EMPTY
        if not node:
            out.append(par)                     # no carry can arrive here
            if d or cb:
                node = _ch_extend(0, fs, cb)
            continue
        # the carry into this position is not a constant, or the chain would have restarted
        if not d and not cb:
            out.append(abit(("cin", node)))
        else:
            vn = None
            if d and len(d) == 1:
                (b1, k1), = d.items()
                if k1 == -1:
                    vn = _single_cin(b1)
            if vn is not None:
                # (carry of this chain) - (a carry bit): kept as an XOR of the two carries, so that a later
                # sum can cancel it against the other carry (sequential limb increments = one wide addition)
                bit = par ^ abit(("cin", node))
                out.append(bit)
                if nowrap and p == width - 1 and not carry and _tight(node):
                    # integer value of the bit: cb + carry(node) - carry(vn), stored for the polarity without the constant
                    if cb:
                        _int_meaning.setdefault(bit ^ ONE, (-1, node, vn))     # value = carry(vn) - carry(node)
                    else:
                        _int_meaning.setdefault(bit, (1, node, vn))            # value = carry(node) - carry(vn)
            else:
                payload = ("sb", node, par)
                ai = aindex.get(payload)
                if ai is None:
                    ai = len(atoms)
                    atoms.append(payload)
                    aindex[payload] = ai
                out.append(frozenset((ai,)))
        # node = _ch_extend(node, fs, cb), inlined
        ckey = (node, fs, cb)
        nid = chindex.get(ckey)
        if nid is None:
            pn = nodes[node]
            pos = pn[3]
            neg = 0
            posv = 0
            if d:
                for k in d.values():
                    if k < 0:
                        neg += k
                    else:
                        posv += k
            nid = len(nodes)
            nodes.append((node, fs, cb, pos + 1, pn[4] + ((neg + cb) << pos), pn[5] + ((posv + cb) << pos)))
            chindex[ckey] = nid
        node = nid
    cbit = None
    if carry:
        cbit = out.pop()
        _sum_carry[key] = cbit
        # state of the chain before the extra position is what a later zero extension needs; recompute cheaply
    bits = tuple(out)
    if carry and (not acc or (len(acc) == 1 and c == 0 and list(acc.values()) == [1])):
        # trivial sums keep their trivial bits
        bits = const(c, width) if not acc else list(acc)[0]
        return bits, cbit
    _sum_index[key] = bits
    # several operand sets can have the same bits (cancellations happen bit-wise); the view used for
    # flattening is the smallest of them, so that it does not depend on which one was built first
    old = _lin_view.get(bits)
    if bits not in acc and (old is None or (len(key[1]), key[2]) < (len(old[1]), old[2])):
        _lin_view[bits] = key       # (never a view that mentions the vector itself: flattening would not terminate)
    if not start and not dropped and not carry:
        _lin_strip.setdefault(_strip(bits), (key, node, crem))
    for pm, nodem, cremm in marks:
        # the low pm bits are themselves the sum of the truncated operands: register them, so that a value
        # reassembled from the low words of this sum is recognised (wide counter arithmetic in several steps)
        pre = bits[:pm]
        sp = _strip(pre)
        if len(sp) != pm or sp in _lin_strip:
            continue
        mk = (1 << pm) - 1
        tacc = {}
        for t, k in acc.items():
            tt = t[:pm]
            if any(tt) and k & mk:
                tacc[tt] = (tacc.get(tt, 0) + k) & mk
        if not (c & mk) and len(tacc) == 1 and list(tacc.values()) == [1]:
            continue                    # the prefix is its operand: nothing to flatten
        if any(tt == pre for tt in tacc):
            continue
        cadd_p = c & mk
        for q, kq in cpos.items():
            if q < pm:
                cadd_p += kq << q
        high = (cadd - cadd_p) >> pm
        _lin_strip[sp] = ((pm, frozenset(tacc.items()), c & mk), nodem, cremm - high)
    return (bits, cbit) if carry else bits


# ---- opaque sums: the general case (several word operands, e.g. the additions of ARX rounds).  Bit i of such
# a sum is one atom ("sum", id, i); the id is hash-consed on the flattened operand multiset, which keeps these
# sums cheap.  Sums of ONE word operand with constants, flags and carries (counters) use the carry chains above.
_sum_nodes = []   # id -> (w, frozenset((operand, coeff)), const)


def _low_const_bits(t):
    n = 0
    for b in t:
        if b and b != ONE:
            break
        n += 1
    return n


def _realise_opaque(width, acc, c):
    """Deterministic bit representation of the canonical linear form (acc: operand->coeff, c)."""
    mask = (1 << width) - 1
    c &= mask
    acc = {t: k & mask for t, k in acc.items() if k & mask}
    if not acc:
        return const(c, width)
    if len(acc) == 1 and c == 0:
        (t, k), = acc.items()
        if k == 1:
            return t
    key = (width, frozenset(acc.items()), c)
    hit = _sum_index.get(key)
    if hit is not None:
        return hit
    if len(acc) == 1 and c == 0:
        (t, k), = acc.items()
        if k & (k - 1) == 0:
            # 2^j * x is the left shift of x (x + x, x * 8, ...): one canonical bit-level form
            bits = shl(t, k.bit_length() - 1)
            _sum_index[key] = bits
            if bits not in acc:
                _lin_view[bits] = key
            return bits
    # low bits that are constant in every operand (all coefficients odd): computed exactly, the
    # remaining bits are the canonical form of a narrower sum (an identity of modular arithmetic)
    bits = None
    if all(k & 1 for k in acc.values()):
        kmin = min(_low_const_bits(t) for t in acc)
        if 0 < kmin < width:
            low = c
            upper = {}
            for t, k in acc.items():
                low += k * (const_value(t[:kmin]) or 0)
                u = t[kmin:]
                upper[u] = upper.get(u, 0) + k
            bits = const(low & ((1 << kmin) - 1), kmin) + _dispatch(width - kmin, upper, low >> kmin)
    if bits is None:
        sid = len(_sum_nodes)
        _sum_nodes.append(key)
        bits = tuple(abit(("sum", sid, i)) for i in range(width))
    _sum_index[key] = bits
    if bits not in acc:
        _lin_view[bits] = key
    return bits



FLATTEN = 1000000


def _opkey(t):
    """Deterministic order on operands (for choosing which nested sum to flatten first)."""
    for b in t:
        if b:
            return min(b), len(b)
    return (0, 0)


def _maxval(t):
    v = 0
    for p, b in enumerate(t):
        if b:
            v |= 1 << p
    return v


def lin(width, terms, c=0):
    """sum(coeff*operand) + c (mod 2^width); terms: iterable of (bv, coeff).  Operands that are
    themselves results of lin() are flattened (also through a zero extension, when the narrower sum
    cannot overflow by more than its carry bit), so + is associative and commutative and equal linear
    forms have identical bits."""
    mask = (1 << width) - 1
    half = 1 << (width - 1) if width > 1 else 2
    acc = {}
    c &= mask
    work = [(tuple(t), k & mask) for t, k in terms]
    base = None
    # does the integer sum of the operands as given stay inside [0, 2^width)?
    bound = c
    nowrap = True
    base = None
    for t, k in work:
        if k >= half:
            nowrap = False
            break
        bound += k * _maxval(t)
        if bound > mask:
            nowrap = False
            break
    # Operands that are sums themselves are flattened, smallest first, as long as the flattened form has
    # at most FLATTEN operands: a long accumulation (x += y over many rounds) is then represented as
    # (older prefix, kept opaque) + (the last few addends).  Within that window + is associative and
    # commutative and x + y - y = x; the cost of a sum stays bounded.
    pend = {}

    def put(t, k):
        nonlocal c
        if k == 0:
            return
        assert len(t) == width, (len(t), width)
        cv = const_value(t)
        if cv is not None:
            c = (c + k * cv) & mask
            return
        if t not in _lin_view or _lin_view[t][0] != width:
            b0 = t[0]
            if len(b0) > 1 and not any(t[1:]):
                neg = ONE_ATOM in b0
                m = _int_meaning.get(b0 ^ ONE if neg else b0)
                if m is not None:
                    # a bit known to be  +-(carry(node) - carry(vnode))  as an integer (or 1 minus that)
                    sign, node, vn = m
                    z = (ZERO,) * (width - 1)
                    if neg:
                        c = (c + k) & mask
                        sign = -sign
                    put((_cin_bit(node),) + z, (sign * k) & mask)
                    put((_cin_bit(vn),) + z, (-sign * k) & mask)
                    return
            hit = _lin_strip.get(_strip(t))
            if hit is not None:
                (kw, terms2, c2), end, crem = hit
                if kw < width and not any(t[kw:]) and _tight(end) and not any(t2 == t[:kw] for t2, _ in terms2):
                    # zext of a narrower sum s:  nat(s) = L - 2^kw * (carry + constant overflow)
                    c = (c + k * c2 - ((k * crem) << kw)) & mask
                    pad = (ZERO,) * (width - kw)
                    hw = 1 << (kw - 1)
                    for (t2, k2) in terms2:
                        if k2 >= hw and kw > 1:
                            k2 -= 1 << kw           # the chain of s was built with the signed representative
                        put(t2 + pad, (k * k2) & mask)
                    q = _cin_bit(end)
                    if q == ONE:
                        c = (c - (k << kw)) & mask
                    elif q:
                        put((ZERO,) * kw + (q,) + (ZERO,) * (width - kw - 1), (-k) & mask)
                    return
        nk = (pend.get(t, 0) + k) & mask
        if nk:
            pend[t] = nk
        else:
            pend.pop(t, None)

    for t, k in work:
        put(t, k)
    # Flatten tentatively (cancellations may shrink the form again) and keep the deepest flattening whose
    # result has at most FLATTEN operands: S + y stays {S, y} when S is full, yet S - y_last still peels
    chosen = (dict(pend), c)
    rounds = 0
    while True:
        rounds += 1
        if rounds > 400:
            break                   # defensive: flattening always terminates on well-founded views
        best = None
        for t in pend:
            v = _lin_view.get(t)
            if v is not None and v[0] == width:
                cand = (len(v[1]), _opkey(t))
                if best is None or cand < best[0]:
                    best = (cand, t, v)
        if best is None:
            break
        (size, _), t, v = best
        if len(pend) - 1 + size > 2 * FLATTEN + 2:
            break
        k = pend.pop(t)
        c = (c + k * v[2]) & mask
        for (t2, k2) in v[1]:
            put(t2, (k * k2) & mask)
        if len(pend) <= FLATTEN:
            chosen = (dict(pend), c)
    acc, c = chosen
    return _dispatch(width, acc, c, nowrap)


def _dispatch(width, acc, c, nowrap=False):
    """Counter-like forms (at most one word operand; the others are constants, flags, carries) are carry
    chains; the general case is an opaque sum.  The choice depends on the flattened form only."""
    big = 0
    for t, k in acc.items():
        if not k:
            continue
        n = 0
        for b in t:
            if b and b != ONE:
                n += 1
                if n > 1:
                    break
        if n > 1:
            big += 1
            if big > 1:
                break
    if big > 1:
        return _realise_opaque(width, acc, c)
    return _realise(width, acc, c, nowrap)


def add(a, b):
    assert len(a) == len(b), (len(a), len(b))
    return lin(len(a), [(a, 1), (b, 1)])


def sub(a, b):
    assert len(a) == len(b)
    return lin(len(a), [(a, 1), (b, -1)])


def neg(a):
    return lin(len(a), [(a, -1)])


def mul_const(a, k):
    return lin(len(a), [(a, k)])


def mul(a, b):
    ca, cb = const_value(a), const_value(b)
    if ca is not None:
        return mul_const(b, ca)
    if cb is not None:
        return mul_const(a, cb)
    w = len(a)
    ka, kb = _bvkey(a), _bvkey(b)
    if kb < ka:
        a, b = b, a
    return tuple(abit(("mul", a, b, i)) for i in range(w))


def _bvkey(a):
    return tuple(tuple(sorted(x)) for x in a)


def carry_add(a, b):
    """Carry-out bit of a+b (unsigned overflow): bit w of the (w+1)-bit sum."""
    assert len(a) == len(b)
    w = len(a)
    return lin(w + 1, [(tuple(a) + (ZERO,), 1), (tuple(b) + (ZERO,), 1)])[w]


def add_carry(a, b):
    """(a + b mod 2^w, carry-out): both from one pass over the carry chain."""
    s = add(a, b)
    return s, carry_add(a, b)


def borrow_sub(a, b):
    """Borrow bit of a-b (unsigned underflow: a < b)."""
    return cmp_bit("ult", a, b)


# ---------------------------------------------------------------- comparisons

def cmp_bit(op, a, b):
    """op in eq, ne, ult, ule, ugt, uge, slt, sle, sgt, sge -> one bit."""
    assert len(a) == len(b), (op, len(a), len(b))
    ca, cb = const_value(a), const_value(b)
    w = len(a)
    if ca is not None and cb is not None:
        if op[0] == "s":
            def s(v):
                return v - (1 << w) if v >> (w - 1) else v
            ca, cb = s(ca), s(cb)
        r = {"eq": ca == cb, "ne": ca != cb, "ult": ca < cb, "ule": ca <= cb, "ugt": ca > cb,
             "uge": ca >= cb, "slt": ca < cb, "sle": ca <= cb, "sgt": ca > cb, "sge": ca >= cb}[op]
        return ONE if r else ZERO
    if a == b:
        return ONE if op in ("eq", "ule", "uge", "sle", "sge") else ZERO
    # normalise to eq / ult / slt with possible negation and operand swap
    if op == "ne":
        return cmp_bit("eq", a, b) ^ ONE
    if op == "eq":
        # eq decomposes bitwise only for single bits
        if w == 1:
            return a[0] ^ b[0] ^ ONE
        # canonical whatever the word grouping: conjunction of the (linear) bit equalities
        return band_n(x ^ y ^ ONE for x, y in zip(a, b))
    if op in ("ugt", "sgt"):
        return cmp_bit(op[0] + "lt", b, a)
    if op in ("uge", "sge"):
        return cmp_bit(op[0] + "lt", a, b) ^ ONE
    if op in ("ule", "sle"):
        return cmp_bit(op[0] + "lt", b, a) ^ ONE
    if op == "ult":
        if cb == 0:
            return ZERO
        if w == 1:
            return band(a[0] ^ ONE, b[0])
        # s = x + y (mod 2^w):  s < y  <=>  s < x  <=>  the addition carried out
        v = _lin_view.get(tuple(a))
        if v is not None and v[0] == w:
            terms = dict(v[1])
            c0 = v[2]
            tb = tuple(b)
            if c0 == 0 and len(terms) == 2 and tb in terms and all(k == 1 for k in terms.values()):
                (x,) = [t for t in terms if t != tb]
                return carry_add(x, tb)
            if len(terms) == 1 and c0 and list(terms.values()) == [1]:
                (x,) = terms
                if cb == c0 or tb == x:
                    return carry_add(x, const(c0, w))
    return abit(("cmp", op, a, b))


# ---------------------------------------------------------------- uninterpreted functions

_fn_apps = {}      # (name, args) -> application id
_fn_app_list = []  # id -> (name, args)


def ufn(name, args, out_width):
    """Uninterpreted function application; args: tuple of BVs.  Applications are interned so that
    the per-bit atoms stay small."""
    args = tuple(tuple(a) for a in args)
    k = (name, args)
    aid = _fn_apps.get(k)
    if aid is None:
        aid = len(_fn_app_list)
        _fn_app_list.append(k)
        _fn_apps[k] = aid
    return tuple(abit(("fn", name, aid, i)) for i in range(out_width))


def fn_args(p):
    """Arguments of an 'fn' atom payload."""
    return _fn_app_list[p[2]][1]


# ---------------------------------------------------------------- evaluation (witnesses, oracle self-test)

class Evaluator:
    def __init__(self, inputs, fns=None):
        """inputs: dict name -> int (value of the named input vector); fns: name -> python fn."""
        self.inputs = inputs
        self.fns = fns if fns is not None else {}
        self.memo = {}
        self.summemo = {}

    def bit(self, b):
        v = 0
        for a in b:
            v ^= self.atom(a)
        return v

    def bv(self, bv):
        v = 0
        for i, b in enumerate(bv):
            if self.bit(b):
                v |= 1 << i
        return v

    def atom(self, a):
        if a == 0:
            return 1
        m = self.memo.get(a)
        if m is not None:
            return m
        p = _atoms[a]
        k = p[0]
        if k == "in":
            r = (self.inputs[p[1]] >> p[2]) & 1
        elif k == "and":
            r = 1
            for x in p[1]:
                if not self.bit(x):
                    r = 0
                    break
        elif k == "sum":
            r = (self.sumval(p[1]) >> p[2]) & 1
        elif k == "cin":
            r = (self.chval(p[1]) >> _ch_nodes[p[1]][3]) & 1
        elif k == "sb":
            r = ((self.chval(p[1]) >> _ch_nodes[p[1]][3]) & 1) ^ self.bit(p[2])
        elif k == "ite":
            r = self.bit(p[2]) if self.bit(p[1]) else self.bit(p[3])
        elif k == "mul":
            w = len(p[1])
            r = ((self.bv(p[1]) * self.bv(p[2])) >> p[3]) & 1
        elif k == "cmp":
            x, y = self.bv(p[2]), self.bv(p[3])
            w = len(p[2])
            if p[1] == "eq":
                r = int(x == y)
            elif p[1] == "ult":
                r = int(x < y)
            elif p[1] == "slt":
                def s(v):
                    return v - (1 << w) if v >> (w - 1) else v
                r = int(s(x) < s(y))
            else:
                raise ValueError(p[1])
        elif k == "fn":
            f = self.fns[p[1]]
            key = ("fnval", p[1], p[2])
            val = self.memo.get(key)
            if val is None:
                val = f(*[self.bv(x) for x in fn_args(p)])
                self.memo[key] = val
            r = (val >> p[3]) & 1
        else:
            raise ValueError(k)
        self.memo[a] = r
        return r

    def sumval(self, sid):
        key = ("opaque", sid)
        v = self.summemo.get(key)
        if v is None:
            w, terms, c = _sum_nodes[sid]
            v = c
            for t, k in terms:
                v += k * self.bv(t)
            v &= (1 << w) - 1
            self.summemo[key] = v
        return v

    def chval(self, nid):
        """Integer L(nid) of a carry-chain node under the assignment."""
        memo = self.summemo
        stack = []
        n = nid
        while n and n not in memo:
            stack.append(n)
            n = _ch_nodes[n][0]
        v = memo.get(n, 0)
        while stack:
            n = stack.pop()
            _, entries, cb, pos, _, _ = _ch_nodes[n]
            e = cb
            for b, k in entries:
                if self.bit(b):
                    e += k
            v = v + (e << (pos - 1))
            memo[n] = v
        return v


# ---------------------------------------------------------------- printing / diffing

def support(bv, limit=2000000):
    """Set of input (name, idx) the vector depends on."""
    seen = set()
    seen_sums = set()
    out = set()
    stack = []

    def push_bit(b):
        for a in b:
            if a and a not in seen:
                seen.add(a)
                stack.append(a)

    def push_bv(t):
        for b in t:
            push_bit(b)
    push_bv(bv)
    while stack:
        a = stack.pop()
        if len(seen) > limit:
            break
        p = _atoms[a]
        k = p[0]
        if k == "in":
            out.add((p[1], p[2]))
        elif k == "and":
            for x in p[1]:
                push_bit(x)
        elif k == "sum":
            if ("o", p[1]) not in seen_sums:
                seen_sums.add(("o", p[1]))
                for t, _ in _sum_nodes[p[1]][1]:
                    push_bv(t)
        elif k in ("cin", "sb"):
            if k == "sb":
                push_bit(p[2])
            n = p[1]
            while n and n not in seen_sums:
                seen_sums.add(n)
                for b, _ in _ch_nodes[n][1]:
                    push_bit(b)
                n = _ch_nodes[n][0]
        elif k in ("mul",):
            push_bv(p[1]); push_bv(p[2])
        elif k == "ite":
            push_bit(p[1]); push_bit(p[2]); push_bit(p[3])
        elif k == "cmp":
            push_bv(p[2]); push_bv(p[3])
        elif k == "fn":
            for t in fn_args(p):
                push_bv(t)
    return out


def show_bit(b, depth=2):
    if not b:
        return "0"
    parts = []
    for a in sorted(b):
        parts.append(show_atom(a, depth))
    return "^".join(parts)


def show_atom(a, depth=2):
    if a == 0:
        return "1"
    p = _atoms[a]
    k = p[0]
    if k == "in":
        return "%s[%d]" % (p[1], p[2])
    if depth <= 0:
        return "#%d" % a
    if k == "and":
        ops = sorted(p[1], key=_bitkey)
        return "(" + "&".join(show_bit(x, depth - 1) for x in ops[:6]) + ("&...%d" % len(ops) if len(ops) > 6 else "") + ")"
    if k == "sum":
        return "%s[%d]" % (show_view(_sum_nodes[p[1]], depth - 1), p[2])
    if k == "cin":
        return "carry%d#%d" % (_ch_nodes[p[1]][3], p[1])
    if k == "sb":
        return "sum%d#%d" % (_ch_nodes[p[1]][3], p[1])
    if k == "ite":
        return "ite(%s,%s,%s)" % tuple(show_bit(x, depth - 1) for x in p[1:4])
    if k == "cmp":
        return "%s(%s,%s)" % (p[1], show_bv(p[2], depth - 1), show_bv(p[3], depth - 1))
    if k == "fn":
        return "%s(..)[%d]" % (p[1], p[3])
    if k == "mul":
        return "mul(..)[%d]" % p[3]
    return "#%d" % a


def show_view(view, depth=1):
    w, terms, c = view
    parts = []
    for t, k in sorted(terms, key=lambda tk: _bvkey(tk[0])):
        s = show_bv(t, depth)
        parts.append(s if k == 1 else "%d*%s" % (k, s))
    if c:
        parts.append(hex(c))
    return "sum%d{%s}" % (w, " + ".join(parts))


def show_bv(bv, depth=1):
    """Compact rendering: recognise whole input words, sums, constants, rotations of them."""
    cv = const_value(bv)
    if cv is not None:
        return hex(cv)
    w = len(bv)
    view = _lin_view.get(tuple(bv))
    if view is not None:
        return show_view(view, depth)
    # contiguous run of one input?
    names = []
    for b in bv:
        if len(b) == 1:
            (a,) = b
            p = _atoms[a]
            if p[0] == "in":
                names.append((p[1], p[2]))
                continue

        names.append(None)
    if all(n is not None for n in names) and len(set(n[0] for n in names)) == 1:
        idx = [n[1] for n in names]
        if idx == list(range(idx[0], idx[0] + w)):
            return "%s[%d..%d]" % (names[0][0], idx[0], idx[0] + w)
        return "%s[%s]" % (names[0][0], ",".join(map(str, idx[:8])) + ("..." if w > 8 else ""))
    if w <= 4 or depth <= 0:
        return "<" + ",".join(show_bit(b, depth) for b in bv[:4]) + (",...>" if w > 4 else ">")
    return "<" + ",".join(show_bit(b, 1) for b in bv[:3]) + ",...(%d bits)>" % w


def first_diff(a, b):
    """Index of the first differing bit of two vectors, or None."""
    if len(a) != len(b):
        return -1
    for i, (x, y) in enumerate(zip(a, b)):
        if x != y:
            return i
    return None


# ---------------------------------------------------------------- witnesses for differing normal forms
import hashlib
import random


def _prf(name, args, width_hint=128):
    h = hashlib.sha256(repr((name, args)).encode()).digest()
    return int.from_bytes(h, "little")


class _PrfFns(dict):
    """Every uninterpreted function is interpreted as a fixed pseudo-random function of its arguments."""

    def __missing__(self, name):
        def f(*args):
            return _prf(name, args)
        self[name] = f
        return f


def find_witness(a, b, trials=12, seed=0, budget=25000000):
    """Search an assignment of the inputs on which the two graphs evaluate differently.
    Returns dict(inputs, index, got, expected) or None.  (Graphs only; never repository code.)"""
    if len(a) != len(b):
        return {"inputs": {}, "index": -1, "got": len(a), "expected": len(b)}
    sup = support(tuple(a)) | support(tuple(b))
    widths = {}
    for n, i in sup:
        widths[n] = max(widths.get(n, 0), i + 1)
    rnd = random.Random(seed)
    cases = []
    cases.append({n: rnd.getrandbits(w) for n, w in widths.items()})
    cases.append({n: (1 << w) - 1 for n, w in widths.items()})
    cases.append({n: 0 for n in widths})
    # inputs of equal width made equal, then perturbed in one bit / by the same delta in every 32-bit word
    # (distinguishes equality predicates, which random values never satisfy)
    def base_equal():
        per_w = {}
        return {n: per_w.setdefault(w, rnd.getrandbits(w)) for n, w in sorted(widths.items())}
    cases.append(base_equal())
    for _ in range(3):
        env = base_equal()
        n = rnd.choice(sorted(widths))
        env[n] ^= 1 << rnd.randrange(widths[n])
        cases.append(env)
    eqcases = []
    for _ in range(40):
        env = base_equal()
        n = rnd.choice(sorted(widths))
        delta = rnd.getrandbits(32) | 1
        w = widths[n]
        pat = 0
        for sh in range(0, w, 32):
            if rnd.random() < 0.5:
                pat |= delta << sh
        env[n] ^= pat & ((1 << w) - 1)
        eqcases.append(env)
    cases.extend(eqcases[:3])
    for _ in range(trials - 1):
        cases.append({n: rnd.getrandbits(w) for n, w in widths.items()})
    for _ in range(4):
        # sparse / boundary style values
        cases.append({n: rnd.choice([0, 1, (1 << w) - 1, 1 << (w - 1), rnd.getrandbits(w)]) for n, w in widths.items()})
    # boundary values: a difference that sits in a carry or comparison shows only when an input word is at
    # the value where that carry flips (2^w - c for a constant c of the graphs); try those for the words
    # the first differing bit depends on
    try:
        di = next(i for i, (x, y) in enumerate(zip(a, b)) if x != y)
        dsup = support((a[di] ^ b[di],))
    except StopIteration:
        dsup = set()
    consts = set()
    for (w0, _, c0) in _sum_index:
        if c0:
            consts.add(min(c0, (1 << w0) - c0))
    consts = sorted(consts)[:6] or [1]
    words = set()
    for n, i in dsup:
        for ww in (32, 64):
            if widths.get(n, 0) >= ww:
                words.add((n, (i // ww) * ww, ww))
    targeted = []
    for n, lo, ww in sorted(words):
        for c0 in consts:
            for v in ((-c0) % (1 << ww), (-c0 - 1) % (1 << ww), c0 % (1 << ww), (c0 - 1) % (1 << ww)):
                env = {m: rnd.getrandbits(w) for m, w in widths.items()}
                env[n] = (env[n] & ~(((1 << ww) - 1) << lo)) | (v << lo)
                env[n] &= (1 << widths[n]) - 1
                targeted.append(env)
    rnd.shuffle(targeted)
    cases[4:4] = targeted[:48]
    cases.extend(eqcases[3:])
    spent = 0
    for nth, env in enumerate(cases):
        if nth >= 3 and spent > budget:
            break                   # huge graphs: a few assignments only (the verdict stays "undecided")
        try:
            ev = Evaluator(env, _PrfFns())
            for i, (x, y) in enumerate(zip(a, b)):
                if x == y:
                    continue
                if ev.bit(x) != ev.bit(y):
                    spent += len(ev.memo)
                    return {"inputs": {k: hex(v) for k, v in sorted(env.items()) if not k.startswith("cpu.") or True},
                            "index": i, "got": ev.bit(x), "expected": ev.bit(y)}
        except (ValueError, KeyError, RecursionError):
            return None
        spent += len(ev.memo)
    return None
