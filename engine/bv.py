"""E2 term domain: hash-consed bit-level value graphs with canonical normal forms.

A *bit* is a frozenset of atom ids, meaning the XOR of those atoms; atom 0 is the constant 1, so
frozenset() is 0 and frozenset({0}) is 1.  A bit-vector (BV) is a tuple of bits, least significant
first.  Everything GF(2)-affine (xor, not, rotates, shifts, shuffles, byte swaps, extract/concat,
masks with constants) is therefore in a canonical form by construction.  Non-linear operations
create hash-consed atoms:

  and   : AND of two (canonical) bits, operands sorted
  sum   : bit i of a modular linear form  sum(coeff_k * operand_k) + const  (mod 2^w); nested sums
          are flattened, equal operands merged, so + is associative/commutative and x+k-k = x
  carry : the carry-out of a sum node
  ite   : if-then-else on a condition bit
  cmp   : comparison of two bit-vectors
  fn    : output bit of an uninterpreted function (modular mode: S-boxes, Threefish, ...)
  in    : input bit

Only the identities listed in DESIGN.md section 2.3 are used; equal normal forms imply equal
functions.  `evaluate` interprets a graph under an assignment of the inputs (used for witnesses and
for validating the reference models against published test vectors) - it never touches /repo code.
"""
import sys

sys.setrecursionlimit(100000)

ONE_ATOM = 0
ZERO = frozenset()
ONE = frozenset((0,))

_atoms = [("one",)]          # id -> payload
_atom_index = {("one",): 0}  # payload -> id


def reset():
    """Forget all atoms (start of an independent analysis)."""
    global _atoms, _atom_index, _sum_nodes, _sum_index, _lin_view
    _atoms = [("one",)]
    _atom_index = {("one",): 0}
    _sum_nodes = []
    _sum_index = {}
    _lin_view = {}
    global _fn_apps, _fn_app_list
    _fn_apps = {}
    _fn_app_list = []


def atom(payload):
    i = _atom_index.get(payload)
    if i is None:
        i = len(_atoms)
        _atoms.append(payload)
        _atom_index[payload] = i
    return i


def atom_payload(i):
    return _atoms[i]


def n_atoms():
    return len(_atoms)


def abit(payload):
    return frozenset((atom(payload),))


# ---------------------------------------------------------------- constants / inputs

def const(value, width):
    value &= (1 << width) - 1
    return tuple(ONE if (value >> i) & 1 else ZERO for i in range(width))


def is_const(bv):
    for b in bv:
        if b and b != ONE:
            return False
    return True


def const_value(bv):
    """Integer value of a constant bit-vector, else None."""
    v = 0
    for i, b in enumerate(bv):
        if not b:
            continue
        if b == ONE:
            v |= 1 << i
        else:
            return None
    return v


def inp(name, width):
    return tuple(abit(("in", name, i)) for i in range(width))


# ---------------------------------------------------------------- bitwise

def bxor(a, b):
    return a ^ b


def bnot(a):
    return a ^ ONE


def _and_operands(x):
    """Operands of a conjunction: a single and-atom contributes its operand set."""
    if len(x) == 1:
        (a,) = x
        p = _atoms[a]
        if p[0] == "and":
            return p[1]
    return frozenset((x,))


def band(a, b):
    if not a or not b:
        return ZERO
    if a == ONE:
        return b
    if b == ONE:
        return a
    if a == b:
        return a
    if a == (b ^ ONE):
        return ZERO
    ops = _and_operands(a) | _and_operands(b)
    for x in ops:
        if (x ^ ONE) in ops:
            return ZERO
    if len(ops) == 1:
        (x,) = ops
        return x
    return abit(("and", ops))


def band_n(bits):
    """n-ary conjunction (associative, commutative, idempotent by construction)."""
    ops = set()
    for b in bits:
        if not b:
            return ZERO
        if b == ONE:
            continue
        ops |= _and_operands(b)
    for x in ops:
        if (x ^ ONE) in ops:
            return ZERO
    if not ops:
        return ONE
    if len(ops) == 1:
        (x,) = ops
        return x
    return abit(("and", frozenset(ops)))


def bor(a, b):
    if not a:
        return b
    if not b:
        return a
    if a == ONE or b == ONE:
        return ONE
    if a == b:
        return a
    return a ^ b ^ band(a, b)


def _bitkey(b):
    return tuple(sorted(b))


def bite(c, a, b):
    """c ? a : b on single bits."""
    if c == ONE:
        return a
    if not c:
        return b
    if a == b:
        return a
    if ONE_ATOM in c:
        # canonical polarity of the condition: ite(!c, a, b) = ite(c, b, a)
        return bite(c ^ ONE, b, a)
    if a == ONE and not b:
        return c
    if not a and b == ONE:
        return c ^ ONE
    if not b:
        return band(c, a)
    if not a:
        return band(c ^ ONE, b)
    if a == ONE:
        return bor(c, b)
    if b == ONE:
        return bor(c ^ ONE, a)
    return abit(("ite", c, a, b))


def xor(a, b):
    assert len(a) == len(b), (len(a), len(b))
    return tuple(x ^ y for x, y in zip(a, b))


def and_(a, b):
    assert len(a) == len(b)
    return tuple(band(x, y) for x, y in zip(a, b))


def or_(a, b):
    assert len(a) == len(b)
    return tuple(bor(x, y) for x, y in zip(a, b))


def not_(a):
    return tuple(x ^ ONE for x in a)


def _lin_terms(v):
    view = _lin_view.get(v)
    if view is not None:
        return dict(view[1]), view[2]
    cv = const_value(v)
    if cv is not None:
        return {}, cv
    return {v: 1}, 0


def ite(c, a, b):
    """Vector if-then-else.  If both sides are linear forms over the same operands that differ only by
    a constant d, the result is the linear form  b + d*zext(c)  (so `if c {x += 1}` and
    `x += c as T` have one normal form)."""
    assert len(a) == len(b)
    a, b = tuple(a), tuple(b)
    w = len(a)
    if a == b:
        return a
    if c == ONE:
        return a
    if not c:
        return b
    if w > 1:
        ta, ca = _lin_terms(a)
        tb, cb = _lin_terms(b)
        if ta == tb and (ta or (ca != cb)):
            d = (ca - cb) & ((1 << w) - 1)
            if d:
                cond = c
                if ONE_ATOM in cond:          # canonical polarity: ite(!c, a, b) = ite(c, b, a)
                    cond = cond ^ ONE
                    tb, cb, d = ta, ca, (-d) & ((1 << w) - 1)
                terms = list(tb.items()) + [((cond,) + (ZERO,) * (w - 1), d)]
                return lin(w, terms, cb)
    return tuple(bite(c, x, y) for x, y in zip(a, b))


def shl(a, k):
    w = len(a)
    if k >= w:
        return (ZERO,) * w
    return (ZERO,) * k + a[: w - k]


def lshr(a, k):
    w = len(a)
    if k >= w:
        return (ZERO,) * w
    return a[k:] + (ZERO,) * k


def ashr(a, k):
    w = len(a)
    s = a[-1]
    if k >= w:
        return (s,) * w
    return a[k:] + (s,) * k


def rotr(a, k):
    w = len(a)
    k %= w
    return a[k:] + a[:k]


def rotl(a, k):
    w = len(a)
    return rotr(a, (w - k) % w)


def zext(a, w):
    if len(a) >= w:
        return a[:w]
    return a + (ZERO,) * (w - len(a))


def sext(a, w):
    if len(a) >= w:
        return a[:w]
    return a + (a[-1],) * (w - len(a))


def concat(parts):
    """Concatenate little-end first."""
    out = ()
    for p in parts:
        out += tuple(p)
    return out


def bswap(a):
    assert len(a) % 8 == 0
    n = len(a) // 8
    return concat(a[8 * (n - 1 - i): 8 * (n - i)] for i in range(n))


# ---------------------------------------------------------------- modular linear forms

_sum_nodes = []   # id -> (w, frozenset((operand, coeff)), const)
_sum_index = {}
_lin_view = {}    # bits of a lin() result -> (width, frozenset((operand, coeff)), const)


def _as_sum(bv):
    """Linear view (terms, const) of a vector previously produced by lin(), else None."""
    v = _lin_view.get(bv)
    if v is None:
        return None
    return v[1], v[2]


def _low_const_bits(t):
    n = 0
    for b in t:
        if b and b != ONE:
            break
        n += 1
    return n


def _realise(width, acc, c):
    """Deterministic bit representation of the canonical linear form (acc: operand->coeff, c)."""
    mask = (1 << width) - 1
    c &= mask
    acc = {t: k & mask for t, k in acc.items() if k & mask}
    if not acc:
        return const(c, width)
    if len(acc) == 1 and c == 0:
        (t, k), = acc.items()
        if k == 1:
            return t
    key = (width, frozenset(acc.items()), c)
    hit = _sum_index.get(key)
    if hit is not None:
        return hit
    if len(acc) == 1 and c == 0:
        (t, k), = acc.items()
        if k & (k - 1) == 0:
            # 2^j * x is the left shift of x (x + x, x * 8, ...): one canonical bit-level form
            bits = shl(t, k.bit_length() - 1)
            _sum_index[key] = bits
            _lin_view[bits] = key
            return bits
    # low bits that are constant in every operand (all coefficients odd): computed exactly, the
    # remaining bits are the canonical form of a narrower sum (an identity of modular arithmetic)
    bits = None
    if all(k & 1 for k in acc.values()):
        kmin = min(_low_const_bits(t) for t in acc)
        if 0 < kmin < width:
            low = c
            upper = {}
            for t, k in acc.items():
                low += k * (const_value(t[:kmin]) or 0)
                u = t[kmin:]
                upper[u] = upper.get(u, 0) + k
            bits = const(low & ((1 << kmin) - 1), kmin) + _realise(width - kmin, upper, low >> kmin)
    if bits is None:
        sid = len(_sum_nodes)
        _sum_nodes.append(key)
        bits = tuple(abit(("sum", sid, i)) for i in range(width))
    _sum_index[key] = bits
    _lin_view[bits] = key
    return bits


def lin(width, terms, c=0):
    """sum(coeff*operand) + c (mod 2^width); terms: iterable of (bv, coeff).  Operands that are
    themselves results of lin() are flattened, so + is associative and commutative and equal
    linear forms have identical bits."""
    mask = (1 << width) - 1
    acc = {}
    c &= mask
    work = [(tuple(t), k & mask) for t, k in terms]
    while work:
        t, k = work.pop()
        if k == 0:
            continue
        assert len(t) == width, (len(t), width)
        cv = const_value(t)
        if cv is not None:
            c = (c + k * cv) & mask
            continue
        view = _lin_view.get(t)
        if view is not None and view[0] == width:
            c = (c + k * view[2]) & mask
            for (t2, k2) in view[1]:
                work.append((t2, (k * k2) & mask))
            continue
        acc[t] = (acc.get(t, 0) + k) & mask
    return _realise(width, acc, c)


def add(a, b):
    assert len(a) == len(b), (len(a), len(b))
    return lin(len(a), [(a, 1), (b, 1)])


def sub(a, b):
    assert len(a) == len(b)
    return lin(len(a), [(a, 1), (b, -1)])


def neg(a):
    return lin(len(a), [(a, -1)])


def mul_const(a, k):
    return lin(len(a), [(a, k)])


def mul(a, b):
    ca, cb = const_value(a), const_value(b)
    if ca is not None:
        return mul_const(b, ca)
    if cb is not None:
        return mul_const(a, cb)
    w = len(a)
    ka, kb = _bvkey(a), _bvkey(b)
    if kb < ka:
        a, b = b, a
    return tuple(abit(("mul", a, b, i)) for i in range(w))


def _bvkey(a):
    return tuple(tuple(sorted(x)) for x in a)


def carry_add(a, b):
    """Carry-out bit of a+b (unsigned overflow)."""
    assert len(a) == len(b)
    ca, cb = const_value(a), const_value(b)
    w = len(a)
    if ca is not None and cb is not None:
        return ONE if (ca + cb) >> w else ZERO
    if ca == 0 or cb == 0:
        return ZERO
    # three-valued ripple: the carry-out is often decided by the constant bits alone
    cy = 0          # 0, 1 or None (unknown)
    for x, y in zip(a, b):
        vx = 0 if not x else (1 if x == ONE else None)
        vy = 0 if not y else (1 if y == ONE else None)
        vals = (vx, vy, cy)
        ones = sum(1 for v in vals if v == 1)
        zeros = sum(1 for v in vals if v == 0)
        cy = 1 if ones >= 2 else (0 if zeros >= 2 else None)
    if cy is not None:
        return ONE if cy else ZERO
    ka, kb = _bvkey(a), _bvkey(b)
    if kb < ka:
        a, b = b, a
    return abit(("carry", a, b))


def borrow_sub(a, b):
    """Borrow bit of a-b (unsigned underflow: a < b)."""
    return cmp_bit("ult", a, b)


# ---------------------------------------------------------------- comparisons

def cmp_bit(op, a, b):
    """op in eq, ne, ult, ule, ugt, uge, slt, sle, sgt, sge -> one bit."""
    assert len(a) == len(b), (op, len(a), len(b))
    ca, cb = const_value(a), const_value(b)
    w = len(a)
    if ca is not None and cb is not None:
        if op[0] == "s":
            def s(v):
                return v - (1 << w) if v >> (w - 1) else v
            ca, cb = s(ca), s(cb)
        r = {"eq": ca == cb, "ne": ca != cb, "ult": ca < cb, "ule": ca <= cb, "ugt": ca > cb,
             "uge": ca >= cb, "slt": ca < cb, "sle": ca <= cb, "sgt": ca > cb, "sge": ca >= cb}[op]
        return ONE if r else ZERO
    if a == b:
        return ONE if op in ("eq", "ule", "uge", "sle", "sge") else ZERO
    # normalise to eq / ult / slt with possible negation and operand swap
    if op == "ne":
        return cmp_bit("eq", a, b) ^ ONE
    if op == "eq":
        # eq decomposes bitwise only for single bits
        if w == 1:
            return a[0] ^ b[0] ^ ONE
        # canonical whatever the word grouping: conjunction of the (linear) bit equalities
        return band_n(x ^ y ^ ONE for x, y in zip(a, b))
    if op in ("ugt", "sgt"):
        return cmp_bit(op[0] + "lt", b, a)
    if op in ("uge", "sge"):
        return cmp_bit(op[0] + "lt", a, b) ^ ONE
    if op in ("ule", "sle"):
        return cmp_bit(op[0] + "lt", b, a) ^ ONE
    if op == "ult":
        if cb == 0:
            return ZERO
        if w == 1:
            return band(a[0] ^ ONE, b[0])
    return abit(("cmp", op, a, b))


# ---------------------------------------------------------------- uninterpreted functions

_fn_apps = {}      # (name, args) -> application id
_fn_app_list = []  # id -> (name, args)


def ufn(name, args, out_width):
    """Uninterpreted function application; args: tuple of BVs.  Applications are interned so that
    the per-bit atoms stay small."""
    args = tuple(tuple(a) for a in args)
    k = (name, args)
    aid = _fn_apps.get(k)
    if aid is None:
        aid = len(_fn_app_list)
        _fn_app_list.append(k)
        _fn_apps[k] = aid
    return tuple(abit(("fn", name, aid, i)) for i in range(out_width))


def fn_args(p):
    """Arguments of an 'fn' atom payload."""
    return _fn_app_list[p[2]][1]


# ---------------------------------------------------------------- evaluation (witnesses, oracle self-test)

class Evaluator:
    def __init__(self, inputs, fns=None):
        """inputs: dict name -> int (value of the named input vector); fns: name -> python fn."""
        self.inputs = inputs
        self.fns = fns if fns is not None else {}
        self.memo = {}
        self.summemo = {}

    def bit(self, b):
        v = 0
        for a in b:
            v ^= self.atom(a)
        return v

    def bv(self, bv):
        v = 0
        for i, b in enumerate(bv):
            if self.bit(b):
                v |= 1 << i
        return v

    def atom(self, a):
        if a == 0:
            return 1
        m = self.memo.get(a)
        if m is not None:
            return m
        p = _atoms[a]
        k = p[0]
        if k == "in":
            r = (self.inputs[p[1]] >> p[2]) & 1
        elif k == "and":
            r = 1
            for x in p[1]:
                if not self.bit(x):
                    r = 0
                    break
        elif k == "sum":
            r = (self.sumval(p[1]) >> p[2]) & 1
        elif k == "carry":
            w = len(p[1])
            r = (self.bv(p[1]) + self.bv(p[2])) >> w & 1
        elif k == "ite":
            r = self.bit(p[2]) if self.bit(p[1]) else self.bit(p[3])
        elif k == "mul":
            w = len(p[1])
            r = ((self.bv(p[1]) * self.bv(p[2])) >> p[3]) & 1
        elif k == "cmp":
            x, y = self.bv(p[2]), self.bv(p[3])
            w = len(p[2])
            if p[1] == "eq":
                r = int(x == y)
            elif p[1] == "ult":
                r = int(x < y)
            elif p[1] == "slt":
                def s(v):
                    return v - (1 << w) if v >> (w - 1) else v
                r = int(s(x) < s(y))
            else:
                raise ValueError(p[1])
        elif k == "fn":
            f = self.fns[p[1]]
            key = ("fnval", p[1], p[2])
            val = self.memo.get(key)
            if val is None:
                val = f(*[self.bv(x) for x in fn_args(p)])
                self.memo[key] = val
            r = (val >> p[3]) & 1
        else:
            raise ValueError(k)
        self.memo[a] = r
        return r

    def sumval(self, sid):
        v = self.summemo.get(sid)
        if v is None:
            w, terms, c = _sum_nodes[sid]
            v = c
            for t, k in terms:
                v += k * self.bv(t)
            v &= (1 << w) - 1
            self.summemo[sid] = v
        return v


# ---------------------------------------------------------------- printing / diffing

def support(bv, limit=2000000):
    """Set of input (name, idx) the vector depends on."""
    seen = set()
    seen_sums = set()
    out = set()
    stack = []

    def push_bit(b):
        for a in b:
            if a and a not in seen:
                seen.add(a)
                stack.append(a)

    def push_bv(t):
        for b in t:
            push_bit(b)
    push_bv(bv)
    while stack:
        a = stack.pop()
        if len(seen) > limit:
            break
        p = _atoms[a]
        k = p[0]
        if k == "in":
            out.add((p[1], p[2]))
        elif k == "and":
            for x in p[1]:
                push_bit(x)
        elif k == "sum":
            if p[1] not in seen_sums:
                seen_sums.add(p[1])
                for t, _ in _sum_nodes[p[1]][1]:
                    push_bv(t)
        elif k in ("carry", "mul"):
            push_bv(p[1]); push_bv(p[2])
        elif k == "ite":
            push_bit(p[1]); push_bit(p[2]); push_bit(p[3])
        elif k == "cmp":
            push_bv(p[2]); push_bv(p[3])
        elif k == "fn":
            for t in fn_args(p):
                push_bv(t)
    return out


def show_bit(b, depth=2):
    if not b:
        return "0"
    parts = []
    for a in sorted(b):
        parts.append(show_atom(a, depth))
    return "^".join(parts)


def show_atom(a, depth=2):
    if a == 0:
        return "1"
    p = _atoms[a]
    k = p[0]
    if k == "in":
        return "%s[%d]" % (p[1], p[2])
    if depth <= 0:
        return "#%d" % a
    if k == "and":
        ops = sorted(p[1], key=_bitkey)
        return "(" + "&".join(show_bit(x, depth - 1) for x in ops[:6]) + ("&...%d" % len(ops) if len(ops) > 6 else "") + ")"
    if k == "sum":
        return "%s[%d]" % (show_sum(p[1], depth - 1), p[2])
    if k == "carry":
        return "carry(%s,%s)" % (show_bv(p[1], depth - 1), show_bv(p[2], depth - 1))
    if k == "ite":
        return "ite(%s,%s,%s)" % tuple(show_bit(x, depth - 1) for x in p[1:4])
    if k == "cmp":
        return "%s(%s,%s)" % (p[1], show_bv(p[2], depth - 1), show_bv(p[3], depth - 1))
    if k == "fn":
        return "%s(..)[%d]" % (p[1], p[3])
    if k == "mul":
        return "mul(..)[%d]" % p[3]
    return "#%d" % a


def show_sum(sid, depth=1):
    return show_view(_sum_nodes[sid], depth)


def show_view(view, depth=1):
    w, terms, c = view
    parts = []
    for t, k in sorted(terms, key=lambda tk: _bvkey(tk[0])):
        s = show_bv(t, depth)
        parts.append(s if k == 1 else "%d*%s" % (k, s))
    if c:
        parts.append(hex(c))
    return "sum%d{%s}" % (w, " + ".join(parts))


def show_bv(bv, depth=1):
    """Compact rendering: recognise whole input words, sums, constants, rotations of them."""
    cv = const_value(bv)
    if cv is not None:
        return hex(cv)
    w = len(bv)
    view = _lin_view.get(tuple(bv))
    if view is not None:
        return show_view(view, depth)
    # contiguous run of one input?
    names = []
    for b in bv:
        if len(b) == 1:
            (a,) = b
            p = _atoms[a]
            if p[0] == "in":
                names.append((p[1], p[2]))
                continue
            if p[0] == "sum":
                names.append(("sum#%d" % p[1], p[2]))
                continue
        names.append(None)
    if all(n is not None for n in names) and len(set(n[0] for n in names)) == 1:
        idx = [n[1] for n in names]
        if idx == list(range(idx[0], idx[0] + w)):
            return "%s[%d..%d]" % (names[0][0], idx[0], idx[0] + w)
        return "%s[%s]" % (names[0][0], ",".join(map(str, idx[:8])) + ("..." if w > 8 else ""))
    if w <= 4 or depth <= 0:
        return "<" + ",".join(show_bit(b, depth) for b in bv[:4]) + (",...>" if w > 4 else ">")
    return "<" + ",".join(show_bit(b, 1) for b in bv[:3]) + ",...(%d bits)>" % w


def first_diff(a, b):
    """Index of the first differing bit of two vectors, or None."""
    if len(a) != len(b):
        return -1
    for i, (x, y) in enumerate(zip(a, b)):
        if x != y:
            return i
    return None


# ---------------------------------------------------------------- witnesses for differing normal forms
import hashlib
import random


def _prf(name, args, width_hint=128):
    h = hashlib.sha256(repr((name, args)).encode()).digest()
    return int.from_bytes(h, "little")


class _PrfFns(dict):
    """Every uninterpreted function is interpreted as a fixed pseudo-random function of its arguments."""

    def __missing__(self, name):
        def f(*args):
            return _prf(name, args)
        self[name] = f
        return f


def find_witness(a, b, trials=12, seed=0, budget=6000000):
    """Search an assignment of the inputs on which the two graphs evaluate differently.
    Returns dict(inputs, index, got, expected) or None.  (Graphs only; never repository code.)"""
    if len(a) != len(b):
        return {"inputs": {}, "index": -1, "got": len(a), "expected": len(b)}
    sup = support(tuple(a)) | support(tuple(b))
    widths = {}
    for n, i in sup:
        widths[n] = max(widths.get(n, 0), i + 1)
    rnd = random.Random(seed)
    cases = []
    cases.append({n: rnd.getrandbits(w) for n, w in widths.items()})
    cases.append({n: 0 for n in widths})
    cases.append({n: (1 << w) - 1 for n, w in widths.items()})
    for _ in range(trials - 1):
        cases.append({n: rnd.getrandbits(w) for n, w in widths.items()})
    for _ in range(4):
        # sparse / boundary style values
        cases.append({n: rnd.choice([0, 1, (1 << w) - 1, 1 << (w - 1), rnd.getrandbits(w)]) for n, w in widths.items()})
    spent = 0
    for nth, env in enumerate(cases):
        if nth >= 2 and spent > budget:
            break                   # huge graphs: a few assignments only (the verdict stays "undecided")
        try:
            ev = Evaluator(env, _PrfFns())
            for i, (x, y) in enumerate(zip(a, b)):
                if x == y:
                    continue
                if ev.bit(x) != ev.bit(y):
                    spent += len(ev.memo)
                    return {"inputs": {k: hex(v) for k, v in sorted(env.items()) if not k.startswith("cpu.") or True},
                            "index": i, "got": ev.bit(x), "expected": ev.bit(y)}
        except (ValueError, KeyError, RecursionError):
            return None
        spent += len(ev.memo)
    return None
