"""E1 structural rules over the resolved program: C18 (statics / Send+Sync / initialisers),
C16 (unsafe memory operation audit), C08 (state shape, reset, taint), C03 (dispatch structure,
feature adequacy)."""
import os
import re
import shutil
import subprocess
import tempfile

from . import facts, graph
from .facts import WORKSPACE_CRATES, short

VERIF = facts.VERIF


def all_fact_files(cfg):
    out = [facts.load(cfg)]
    for c in sorted(WORKSPACE_CRATES):
        try:
            out.append(facts.load(cfg, c))
        except (OSError, KeyError):
            pass
    return out


def workspace_instances(f):
    for k, inst in f.instances.items():
        if inst.get("body") and f.defs[inst["def"]]["krate"] in WORKSPACE_CRATES | {"verif_controls"}:
            yield k, inst


# ------------------------------------------------------------------------------------------ C18

def classify_static(f, s):
    """-> (ok, why)"""
    if s["mutable"]:
        return False, "static mut"
    if s["thread_local"]:
        return False, "thread-local"
    if s["freeze"]:
        return True, "immutable data without interior mutability"
    m = re.match(r"lazy_static::lazy::Lazy<(.*)>$", s["ty"])
    if m and ("fn(" in m.group(1)):
        # the lazy_static pattern: find the initialiser and check that it only does CPU detection
        owner = s["def"].split("::deref::__stability::LAZY")[0]
        init = [k for k in f.instances if k.startswith(owner) and k.endswith("::deref::__static_ref_initialize")]
        if len(init) != 1:
            return False, "lazy cell whose initialiser was not found"
        bad = initialiser_effects(f, init[0])
        if bad:
            return False, "lazy cell whose initialiser does more than CPU-feature detection: %s" % bad
        return True, "lazy_static function-pointer cell initialised from CPU-feature detection only"
    return False, "static with interior mutability of type %s" % s["ty"]


def initialiser_effects(f, key, depth=0):
    """Calls made by a lazy initialiser (transitively, workspace code only) other than CPU-feature
    detection and panics; reified function items are values, not calls."""
    inst = f.instances.get(key)
    if not inst or not inst.get("body"):
        return "no body for %s" % key
    for _, t in graph.call_sites(inst):
        ce = t.get("callee")
        if ce is None:
            return "indirect call in %s" % short(key)
        d = ce.get("resolved_def", ce["def"])
        if d.startswith("std_detect::detect::") or graph.is_panic_fn(d) or d.startswith("core::fmt::"):
            continue
        if f.defs[d]["krate"] in WORKSPACE_CRATES and depth < 4:
            r = initialiser_effects(f, ce["inst"], depth + 1)
            if r:
                return r
            continue
        return "call of %s" % d
    body = inst["body"]
    for b in body["blocks"]:
        for st in b["stmts"]:
            if st["k"] == "assign" and _mentions_static(st["rv"]):
                return "reads a static in %s" % short(key)
            if st["k"] == "assign" and any(p["k"] == "deref" for p in st["place"]["proj"]):
                lt = body["locals"][st["place"]["local"]]
                if f.types[lt]["kind"] == "rawptr":
                    return "raw pointer store in %s" % short(key)
    return None


def _mentions_static(x):
    if isinstance(x, dict):
        if "static" in x and isinstance(x["static"], str):
            return True
        if x.get("k") == "thread_local_ref":
            return True
        return any(_mentions_static(v) for v in x.values())
    if isinstance(x, list):
        return any(_mentions_static(v) for v in x)
    return False


def static_refs(x, out):
    if isinstance(x, dict):
        if "static" in x and isinstance(x["static"], str):
            out.add(x["static"])
        if x.get("k") == "thread_local_ref":
            out.add("thread_local:" + x.get("def", "?"))
        for v in x.values():
            static_refs(v, out)
    elif isinstance(x, list):
        for v in x:
            static_refs(v, out)


def c18(report, tier):
    n_statics = 0
    allowed = set()
    for f in all_fact_files("K1")[1:]:
        for s in f.statics:
            n_statics += 1
            ok, why = classify_static(f, s)
            key = "%s::%s" % (f.crate, s["def"])
            if ok:
                allowed.add(s["def"])
                report.ok("R18.1", key, sample={"static": key, "type": s["ty"][:80], "class": why})
            else:
                report.violated("R18.1", key, "%s is a %s (%s:%s): shared mutable state reachable from several threads/instances"
                                % (key, why, s["span"]["file"].replace("/repo/", ""), s["span"]["line"]))
        for u in f.unsafe_impls:
            tr = u["trait"]
            if tr.endswith("::Send") or tr.endswith("::Sync"):
                report.violated("R18.3", "%s:%s for %s" % (f.crate, tr, u["self_ty"]),
                                "manual impl of %s for %s (%s:%s) overrides the compiler's thread-safety analysis"
                                % (tr, u["self_ty"], u["span"]["file"].replace("/repo/", ""), u["span"]["line"]))
        report.ok("R18.3", "%s: no manual Send/Sync impl" % f.crate)
    report.extra["statics_in_workspace"] = n_statics
    # R18.2: statics referenced from workspace code reached from the public API
    f = facts.load("K1")
    refs = {}
    n_inst = 0
    for k, inst in workspace_instances(f):
        n_inst += 1
        s = set()
        static_refs(inst["body"], s)
        for x in s:
            refs.setdefault(x, k)
    def norm(n):
        for c in WORKSPACE_CRATES:
            n = n.replace(c + "::", "")
        return n
    allowed_n = {norm(a) for a in allowed}
    for x, k in sorted(refs.items()):
        if norm(x) in allowed_n:
            report.ok("R18.2", "ref:%s" % x)
        else:
            report.violated("R18.2", "ref:%s" % x, "workspace code (%s) refers to static %s which is not in the allowed inventory" % (short(k), x))
    report.extra["instances_scanned_for_static_refs"] = n_inst
    # positive control
    fc = facts.load("CONTROLS", "verif_controls")
    hits = sum(1 for s in fc.statics if not classify_static(fc, s)[0])
    send_sync = sum(1 for u in fc.unsafe_impls if u["trait"].endswith("::Send") or u["trait"].endswith("::Sync"))
    report.floor("positive control: forbidden statics recognised in fixtures/controls", hits, 3)
    report.floor("positive control: manual Send/Sync impls recognised", send_sync, 2)
    # R18.4 (E5): compile-pass witnesses
    ok, err = build_witness()
    if ok:
        report.ok("R18.4", "Send+Sync witnesses for 26 public state types compile", sample={"witness": "fixtures/witness"})
    else:
        report.violated("R18.4", "witness", "a public state type is no longer Send + Sync (or the hashers no longer Clone + Default): %s" % err)
    return n_statics


def build_witness(doc=False):
    target = tempfile.mkdtemp(prefix="verif-witness-")
    try:
        shutil.copy("/repo/Cargo.lock", os.path.join(VERIF, "fixtures/witness/Cargo.lock"))
        env = dict(os.environ)
        env["CARGO_TARGET_DIR"] = target
        env["CARGO_NET_OFFLINE"] = "true"
        cmd = ["cargo", "+nightly", "test", "--doc", "--offline", "-q"] if doc else ["cargo", "check", "--offline", "-q"]
        r = subprocess.run(cmd, cwd=os.path.join(VERIF, "fixtures/witness"), env=env, capture_output=True, text=True)
        if r.returncode == 0:
            return True, ""
        lines = [l for l in (r.stderr + r.stdout).splitlines() if l.startswith("error") or "FAILED" in l or "the trait" in l]
        return False, "; ".join(lines[:4])[:600]
    finally:
        shutil.rmtree(target, ignore_errors=True)


# ------------------------------------------------------------------------------------------ C16

ALIGNED_RX = re.compile(r"::(_mm_load_si128|_mm_store_si128|_mm256_load_si256|_mm256_store_si256|_mm_load_p[sd]|_mm_store_p[sd]|"
                        r"_mm_stream_\w+|_mm256_stream_\w+|_mm_load_\w+|_mm_store_\w+|_mm_maskmoveu_si128)$")
UNALIGNED_OK = re.compile(r"::(_mm_loadu_\w+|_mm_storeu_\w+|_mm256_loadu_\w+|_mm256_storeu_\w+|_mm_lddqu_si128|_mm_loadl_epi64|_mm_storel_epi64)$")
PTR_INT_FNS = re.compile(r"::(align_offset|is_aligned|is_aligned_to|addr|expose_provenance|with_addr|map_addr|align_to|align_to_mut|"
                         r"as_simd|as_simd_mut|offset_from|offset_from_unsigned|byte_offset_from|sub_ptr|as_ptr_range|as_mut_ptr_range)$")


def align_of(f, t):
    return f.types.get(t, {}).get("align", 1)


def pointee(f, t):
    d = f.types.get(t)
    if d and d["kind"] in ("rawptr", "ref"):
        return d["pointee"]
    return None


def def_map(body):
    """local -> list of defining (kind, payload): assignments and call destinations."""
    m = {}
    for b in body["blocks"]:
        for st in b["stmts"]:
            if st["k"] == "assign" and not st["place"]["proj"]:
                m.setdefault(st["place"]["local"], []).append(("rv", st["rv"]))
        t = b["term"]
        if t["k"] == "call" and not t["dest"]["proj"]:
            m.setdefault(t["dest"]["local"], []).append(("call", t))
    return m


def origin_min_align(f, body, dm, local, depth=0):
    """Smallest pointee alignment a raw pointer local is known to have along its def chain."""
    t = body["locals"][local]
    p = pointee(f, t)
    best = align_of(f, p) if p else 1
    if depth > 12:
        return best
    for kind, x in dm.get(local, []):
        if kind == "rv":
            if x["k"] == "use":
                pl = x["op"].get("copy") or x["op"].get("move")
                if pl and not pl["proj"]:
                    best = min(best, origin_min_align(f, body, dm, pl["local"], depth + 1))
            elif x["k"] == "cast":
                pf = pointee(f, x["from"])
                if pf is not None:
                    best = min(best, align_of(f, pf) if f.types[pf]["kind"] not in ("slice", "str") else align_of(f, f.types[pf].get("elem", "u8")))
                    pl = x["op"].get("copy") or x["op"].get("move")
                    if pl and not pl["proj"]:
                        best = min(best, origin_min_align(f, body, dm, pl["local"], depth + 1))
        else:
            ce = x.get("callee")
            if ce and re.search(r"::(offset|add|sub|wrapping_add|wrapping_offset|cast|cast_mut|cast_const|as_ptr|as_mut_ptr)$", ce.get("resolved_def", ce["def"])):
                a0 = x["args"][0]
                pl = a0.get("copy") or a0.get("move")
                if pl and not pl["proj"]:
                    best = min(best, origin_min_align(f, body, dm, pl["local"], depth + 1))
    return best


def has_padding(f, t, seen=None):
    d = f.types.get(t)
    if d is None:
        return True
    k = d["kind"]
    if k in ("int", "float", "char"):
        return False
    if k == "bool":
        return False
    if k == "array":
        return has_padding(f, d["elem"])
    if k == "struct" and d.get("repr_simd"):
        return False
    if k in ("struct", "tuple", "closure"):
        fields = d["fields"] if k in ("tuple", "closure") else d["variants"][0]["fields"]
        if k == "struct" and d.get("def") == "generic_array::GenericArray":
            return has_padding(f, d["args"][0])
        covered = 0
        for fl in sorted(fields, key=lambda x: x.get("offset", 0)):
            sz = f.types[fl["ty"]].get("size", 0)
            if sz == 0:
                continue
            if fl.get("offset", 0) != covered:
                return True
            if has_padding(f, fl["ty"]):
                return True
            covered += sz
        return covered != d.get("size", covered)
    if k == "union":
        for fl in d["variants"][0]["fields"]:
            if f.types[fl["ty"]].get("size") != d["size"] or has_padding(f, fl["ty"]):
                return True
        return False
    return True


def audit_instance(f, key, inst, findings, counts):
    body = inst["body"]
    dm = None
    reach = graph.reachable_blocks(body)
    where = lambda t: "%s:%s" % ((t.get("span") or {}).get("file", "?").replace("/repo/", ""), (t.get("span") or {}).get("line", "?"))
    for i in sorted(reach):
        b = body["blocks"][i]
        t = b["term"]
        if t["k"] == "call" and "callee" in t:
            d = t["callee"].get("resolved_def", t["callee"]["def"])
            if ALIGNED_RX.search(d) and not UNALIGNED_OK.search(d):
                findings.append(("R16.1", "%s:%s" % (key, d.rsplit("::", 1)[1]),
                                 "%s calls the alignment-requiring %s (%s); byte-slice data has no alignment guarantee"
                                 % (short(key), d.rsplit("::", 1)[1], where(t))))
            elif UNALIGNED_OK.search(d) or d in ("core::ptr::read_unaligned", "core::ptr::write_unaligned"):
                counts["unaligned_ops"] = counts.get("unaligned_ops", 0) + 1
            elif d in ("core::ptr::read", "core::ptr::write", "core::ptr::read_volatile", "core::ptr::write_volatile"):
                if dm is None:
                    dm = def_map(body)
                a0 = t["args"][0]
                pl = a0.get("copy") or a0.get("move")
                tt = t["callee"]["generic_args"][0].get("ty")
                if pl and not pl["proj"] and tt and origin_min_align(f, body, dm, pl["local"]) < align_of(f, tt):
                    findings.append(("R16.1", "%s:%s" % (key, d), "%s: aligned %s through a pointer derived from less aligned data (%s)"
                                     % (short(key), d, where(t))))
            if PTR_INT_FNS.search(d):
                findings.append(("R16.4", "%s:%s" % (key, d.rsplit("::", 1)[1]),
                                 "%s inspects a pointer's address via %s (%s): results could depend on buffer alignment" % (short(key), d, where(t))))
        for st in b["stmts"]:
            if st["k"] != "assign":
                continue
            rv = st["rv"]
            if rv["k"] == "cast":
                ck = rv["cast"]
                kf, kt = f.types[rv["from"]]["kind"], f.types[rv["to"]]["kind"]
                if ck == "transmute" and kf in ("rawptr", "ref") and kt == "int" and _only_feeds_pointer_check(body, st["place"]):
                    continue          # debug-build null/alignment check of a raw pointer dereference
                if ck in ("ptr_expose", "ptr_from_exposed") or (ck == "transmute" and ((kf in ("rawptr", "ref") and kt == "int") or (kf == "int" and kt in ("rawptr", "ref")))):
                    findings.append(("R16.4", "%s:ptr-int-cast#line%d" % (key, 0), "%s converts between pointer and integer (%s line %s)"
                                     % (short(key), ck, st.get("line"))))
                elif ck == "transmute" and kf not in ("rawptr", "ref", "fnptr", "fndef"):
                    counts["transmutes"] = counts.get("transmutes", 0) + 1
                    sf, stt = f.types[rv["from"]].get("size"), f.types[rv["to"]].get("size")
                    if sf != stt or has_padding(f, rv["from"]) or has_padding(f, rv["to"]):
                        findings.append(("R16.3", "%s:transmute %s->%s" % (key, rv["from"], rv["to"]),
                                         "%s transmutes between %s and %s which differ in size or contain padding" % (short(key), rv["from"], rv["to"])))
            # raw pointer dereferences (reads and writes)
            for pl in _places(st):
                if dm is None:
                    dm = def_map(body)
                _check_deref(f, key, body, dm, pl, findings, counts, st.get("line"))


def _only_feeds_pointer_check(body, place):
    """True if the local is used (transitively) only to compute the condition of a
    misaligned/null pointer-dereference Assert inserted by the dev profile."""
    if place["proj"]:
        return False
    work = [place["local"]]
    seen = set()
    reached_assert = False
    while work:
        l = work.pop()
        if l in seen:
            continue
        seen.add(l)
        for b in body["blocks"]:
            for st in b["stmts"]:
                if st["k"] != "assign":
                    continue
                uses = []
                _collect_locals(st["rv"], uses)
                if l in uses:
                    if st["place"]["proj"]:
                        return False
                    if st["rv"]["k"] not in ("binop", "use", "unop", "cast"):
                        return False
                    work.append(st["place"]["local"])
            t = b["term"]
            uses = []
            if t["k"] == "assert":
                _collect_locals(t["cond"], uses)
                if l in uses:
                    if t["msg"].startswith("misaligned") or t["msg"].startswith("null_deref"):
                        reached_assert = True
                    else:
                        return False
            elif t["k"] in ("call", "switch"):
                _collect_locals(t.get("args", []), uses)
                _collect_locals(t.get("discr", {}), uses)
                if l in uses:
                    return False
    return reached_assert


def _collect_locals(x, out):
    if isinstance(x, dict):
        if "local" in x and "proj" in x:
            out.append(x["local"])
            for e in x["proj"]:
                if e.get("k") == "index":
                    out.append(e["local"])
        for v in x.values():
            _collect_locals(v, out)
    elif isinstance(x, list):
        for v in x:
            _collect_locals(v, out)


def _places(st):
    out = [st["place"]]

    def walk(x):
        if isinstance(x, dict):
            if "local" in x and "proj" in x and isinstance(x["proj"], list):
                out.append(x)
            for v in x.values():
                walk(v)
        elif isinstance(x, list):
            for v in x:
                walk(v)
    walk(st["rv"])
    return out


def _check_deref(f, key, body, dm, pl, findings, counts, line):
    if not pl["proj"] or pl["proj"][0]["k"] != "deref":
        return
    lt = body["locals"][pl["local"]]
    d = f.types.get(lt)
    if not d or d["kind"] != "rawptr":
        return
    counts["raw_derefs"] = counts.get("raw_derefs", 0) + 1
    need = align_of(f, d["pointee"])
    have = origin_min_align(f, body, dm, pl["local"])
    if have < need:
        findings.append(("R16.1", "%s:deref *%s" % (key, d["pointee"]),
                         "%s dereferences a *%s (alignment %d) obtained from data aligned to %d (line %s): aligned access to byte data"
                         % (short(key), d["pointee"], need, have, line)))


def c16_structural(report, cfgs, addr_hits=None):
    counts = {}
    n_inst = 0
    seen = set()
    for cfg in cfgs:
        for f in all_fact_files(cfg):
            for k, inst in workspace_instances(f):
                if (cfg, k) in seen:
                    continue
                seen.add((cfg, k))
                n_inst += 1
                findings = []
                audit_instance(f, k, inst, findings, counts)
                for rule, ikey, what in findings:
                    if rule == "R16.4" and addr_hits is not None and ("align_to" in ikey or "align_offset" in ikey):
                        addr_hits.append((cfg, k, f.defs[inst["def"]]["krate"], ikey, what))
                    else:
                        report.violated(rule, "%s@%s" % (ikey, cfg), what)
            # unions declared in workspace crates
            for tk, d in f.types.items():
                if d.get("kind") == "union" and d.get("krate") in WORKSPACE_CRATES:
                    if ("union", cfg, tk) in seen:
                        continue
                    seen.add(("union", cfg, tk))
                    if has_padding(f, tk):
                        report.violated("R16.3", "union %s@%s" % (facts.abbrev(tk), cfg),
                                        "union %s has views of different size or with padding bytes: reinterpretation reads uninitialised or out-of-range bytes" % facts.abbrev(tk))
                    else:
                        report.ok("R16.3", "union %s@%s" % (facts.abbrev(tk), cfg),
                                  sample={"union": facts.abbrev(tk), "size": d["size"], "views": [x["name"] for x in d["variants"][0]["fields"]]})
    report.extra["instances_audited"] = n_inst
    report.extra["unsafe_operation_counts"] = counts
    for name in ("unaligned_ops", "raw_derefs", "transmutes"):
        report.ok("R16.1", "audited %d %s" % (counts.get(name, 0), name))
    # positive control
    fc = facts.load("CONTROLS", "verif_controls")
    ctl = []
    cc = {}
    for k, inst in workspace_instances(fc):
        audit_instance(fc, k, inst, ctl, cc)
    kinds = {r for r, _, _ in ctl}
    report.floor("positive control: aligned-load / typed-deref recognised", sum(1 for r, _, _ in ctl if r == "R16.1"), 2)
    report.floor("positive control: pointer-to-integer cast recognised", sum(1 for r, _, _ in ctl if r == "R16.4"), 1)
    pad = [tk for tk, d in fc.types.items() if d.get("kind") == "union" and d.get("krate") == "verif_controls" and has_padding(fc, tk)]
    report.floor("positive control: padded union recognised", len(pad), 1)
    return n_inst


# ------------------------------------------------------------------------------------------ C17

COUNTER_FIELDS = {"block_counter", "datalen", "t", "len"}
HASH_CRATES = {"blake_hash", "groestl_aesni", "jh_x86_64", "skein_hash", "verif_controls"}


INT_TYPES = {"u8", "u16", "u32", "u64", "u128", "usize"}


def is_counter_field(d, i):
    """A length / block / bit counter of a hasher state: an integer (or pair-of-words) field of a
    struct that sits next to the block buffer, or the tweak pair of a Skein State.  Found by type,
    so renaming the private field does not matter; the historical names are accepted as well."""
    fields = d["variants"][0]["fields"]
    fl = fields[i]
    if fl["name"] in COUNTER_FIELDS:
        return True
    intlike = fl["ty"] in INT_TYPES or (fl["ty"].startswith("(") and all(x.strip() in INT_TYPES for x in fl["ty"][1:-1].split(",")))
    if not intlike:
        return False
    if any(x["ty"].startswith("block_buffer::BlockBuffer<") for x in fields):
        return True
    return "::State<" in (d.get("def", "") + "<") or d.get("def", "").endswith("::State")


def counter_fields(f):
    """[(type key, field path, integer field type, owning struct)] for all hasher-state structs of the hash
    crates; a counter that is itself a small workspace struct of integers (e.g. a tweak type) contributes its
    integer leaves."""
    out = []

    def leaves(t, path, depth=0):
        d = f.types.get(t)
        if d and d.get("kind") == "struct" and d.get("krate") in HASH_CRATES and d.get("variants") and depth < 3 \
                and d.get("size", 99) <= 32:
            r = []
            for fl in d["variants"][0]["fields"]:
                r += leaves(fl["ty"], path + "." + fl["name"], depth + 1)
            return r
        return [(path, t)]
    for k, d in f.types.items():
        if d.get("kind") == "struct" and d.get("krate") in HASH_CRATES and d.get("variants"):
            fields = d["variants"][0]["fields"]
            hosts = any(x["ty"].startswith("block_buffer::BlockBuffer<") for x in fields) or "State" in d.get("def", "")
            if not hosts:
                continue
            for i, fl in enumerate(fields):
                if is_counter_field(d, i):
                    for path, ty in leaves(fl["ty"], fl["name"]):
                        out.append((k, path, ty, d))
    return out


def narrowing_of_lengths(f, key, inst):
    """Narrowing integer casts applied to values that derive (def-use inside the body) from a slice
    length or from a counter field of a hasher state.  -> list of descriptions"""
    body = inst["body"]
    tainted = set()
    out = []

    def op_local(op):
        pl = op.get("copy") or op.get("move")
        return pl["local"] if pl is not None else None

    def place_is_counter(pl):
        # field projection named like a counter on a workspace struct
        t = body["locals"][pl["local"]]
        cur = t
        hit = False
        for e in pl["proj"]:
            d = f.types.get(cur)
            if d is None:
                return hit
            if e["k"] == "deref":
                cur = d.get("pointee", cur)
            elif e["k"] == "field":
                if d["kind"] == "struct" and d.get("krate") in HASH_CRATES:
                    if is_counter_field(d, e["i"]):
                        hit = True
                cur = e["ty"]
            else:
                return hit
        return hit

    def checked_pair(pl):
        # `.0` of the (value, overflowed) pair of a checked arithmetic operation
        return (len(pl["proj"]) == 1 and pl["proj"][0]["k"] == "field" and pl["proj"][0]["i"] == 0
                and body["locals"][pl["local"]].startswith("(") and body["locals"][pl["local"]].endswith(", bool)"))

    changed = True
    rounds = 0
    while changed and rounds < 8:
        changed = False
        rounds += 1
        for b in body["blocks"]:
            for st in b["stmts"]:
                if st["k"] != "assign" or st["place"]["proj"]:
                    continue
                dst = st["place"]["local"]
                rv = st["rv"]
                srcs = []
                if rv["k"] in ("use", "cast"):
                    srcs = [rv["op"]]
                elif rv["k"] == "binop":
                    srcs = [rv["a"], rv["b"]]
                elif rv["k"] == "unop":
                    srcs = [rv["a"]]
                t_in = False
                for op in srcs:
                    pl = op.get("copy") or op.get("move")
                    if pl is None:
                        continue
                    if (pl["local"] in tainted and (not pl["proj"] or checked_pair(pl))) or place_is_counter(pl):
                        t_in = True
                if t_in and dst not in tainted:
                    tainted.add(dst)
                    changed = True
            t = b["term"]
            if t["k"] == "call" and "callee" in t and not t["dest"]["proj"]:
                d = t["callee"].get("resolved_def", t["callee"]["def"])
                if d in ("core::slice::<impl [T]>::len",) or d.endswith("BlockBuffer::<BlockSize>::position") and False:
                    if t["dest"]["local"] not in tainted:
                        tainted.add(t["dest"]["local"])
                        changed = True
    # locals that hold a right-shifted value (directly or through the value half of a checked shift)
    shifted = set()
    for b in body["blocks"]:
        for st in b["stmts"]:
            if st["k"] == "assign" and not st["place"]["proj"]:
                rv = st["rv"]
                if rv["k"] == "binop" and rv["op"] in ("shr", "shr_unchecked"):
                    shifted.add(st["place"]["local"])
                elif rv["k"] in ("use",) and (rv["op"].get("copy") or rv["op"].get("move")) is not None:
                    src = rv["op"].get("copy") or rv["op"].get("move")
                    if src["local"] in shifted:
                        shifted.add(st["place"]["local"])
    for b in body["blocks"]:
        for st in b["stmts"]:
            if st["k"] == "assign" and st["rv"]["k"] == "cast" and st["rv"]["cast"] == "int_to_int":
                rv = st["rv"]
                tf, tt = f.types[rv["from"]], f.types[rv["to"]]
                if tf["kind"] == "int" and tt["kind"] == "int" and tt["bits"] < tf["bits"]:
                    pl = rv["op"].get("copy") or rv["op"].get("move")
                    if tt["bits"] == 8 and pl is not None and not pl["proj"] and pl["local"] in shifted:
                        continue        # (x >> k) as u8: byte-wise serialisation of the value, nothing is lost
                    if pl is not None and ((pl["local"] in tainted and (not pl["proj"] or checked_pair(pl))) or place_is_counter(pl)):
                        out.append("%s -> %s at line %s" % (rv["from"], rv["to"], st.get("line")))
    return out


def c17_structural(report):
    f = facts.load("K1")
    n = 0
    for k, inst in workspace_instances(f):
        if f.defs[inst["def"]]["krate"] not in HASH_CRATES:
            continue
        n += 1
        for what in narrowing_of_lengths(f, k, inst):
            report.violated("R17.2", "%s:%s" % (k, what.split(" at ")[0]),
                            "%s narrows a length / counter value (%s): counts beyond 2^32 would be lost" % (short(k), what))
    report.ok("R17.2", "no narrowing cast on slice lengths or counter fields in %d hash-crate instances" % n)
    report.extra["hash_instances_scanned"] = n
    # counter fields are 64-bit (or pairs of words for BLAKE); fields are recognised by type
    cf = [c for c in counter_fields(f) if c[3].get("krate") != "verif_controls"]
    seen_types = set()
    for t, fld, ty, d in cf:
        seen_types.add(t)
        sib = [x["ty"] for x in d["variants"][0]["fields"]]
        if any(x.endswith("::Compressor256") for x in sib):
            ok = ty == "(u32, u32)"          # BLAKE-224/256: 64-bit bit counter as two 32-bit words
            want = "(u32, u32)"
        elif any(x.endswith("::Compressor512") and x.startswith("blake_hash") for x in sib):
            ok = ty == "(u64, u64)"
            want = "(u64, u64)"
        elif ty.startswith("("):
            ok = ty == "(u64, u64)"
            want = "(u64, u64)"
        else:
            ok = ty == "u64" or (ty == "usize" and f.types["usize"]["bits"] == 64)
            want = "a 64-bit integer"
        if ok:
            report.ok("R17.3", "%s.%s : %s" % (facts.abbrev(t)[:60], fld, ty))
        else:
            report.violated("R17.3", "%s.%s" % (facts.abbrev(t)[:60], fld), "counter field %s.%s has type %s, expected %s (exact counting up to the format limit)" % (facts.abbrev(t)[:60], fld, ty, want))
    # every hasher (struct holding a block buffer) must have a counter, directly or in its State
    for k, d in f.types.items():
        if d.get("kind") == "struct" and d.get("krate") in HASH_CRATES and d.get("krate") != "verif_controls" and d.get("variants"):
            fs = d["variants"][0]["fields"]
            if any(x["ty"].startswith("block_buffer::BlockBuffer<") for x in fs):
                has = k in seen_types or any(x["ty"] in seen_types for x in fs)
                if not has:
                    report.violated("R17.3", "%s:no-counter" % facts.abbrev(k)[:60], "hasher state %s has no integer length / block counter field" % facts.abbrev(k)[:60])
    fams = {c[3].get("krate") for c in cf}
    report.floor("hash crates with a recognised counter field (blake, groestl, jh, skein)", len(fams), 4)
    # positive control
    fc = facts.load("CONTROLS", "verif_controls")
    hits = 0
    for k, inst in workspace_instances(fc):
        hits += len(narrowing_of_lengths(fc, k, inst))
    report.floor("positive control: narrowing of a length recognised", hits, 1)
    return n
