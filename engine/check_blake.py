"""C04: BLAKE compression function per backend (R4.1), initial values (R4.2), finalisation for
every buffer position (R4.3/R4.4) as value graphs against spec/blake.py."""
import re

from . import bv, facts
from .bv import ZERO, ONE
from .interp import Interp, Undecided, Diverge, Agg, Enum, Ptr
from .models import M as MODELS
from .check_threefish import engine_guard, find, bytes_cell, cell_bytes, only_beyond_format_limit
from .check_chacha import _detected  # registers the CPU-detection model
from spec import blake as B

VARIANTS = {"Blake224": 224, "Blake256": 256, "Blake384": 384, "Blake512": 512}


def words(flat, w):
    return [flat[i:i + w] for i in range(0, len(flat), w)]


# Private field names of the hasher structs are not part of any property: a field is found by the
# role its TYPE gives it (unique per struct); the name is only a fallback.
ROLES = {
    "buffer": lambda ft, t: ft.startswith("block_buffer::BlockBuffer<"),
    "compressor": lambda ft, t: "::Compressor" in ft.split("<")[0],
    "t": lambda ft, t: ft in ("(u32, u32)", "(u64, u64)"),
    "block_counter": lambda ft, t: ft == "u64",
    "datalen": lambda ft, t: ft == "usize",
    "state": lambda ft, t: ft.startswith("skein_hash::State<") or ft == "jh_x86_64::compressor::Compressor",
    "x": lambda ft, t: t.startswith("skein_hash::State<") and ft != "(u64, u64)",
}
WORKSPACE = ("blake_hash::", "groestl_aesni::", "jh_x86_64::", "skein_hash::")


def _newtype_inner(it, t):
    """(index, type) of the single non-empty field of a workspace newtype wrapper (e.g. Jh256(JhCore)), else None."""
    d = it.ty.get(t)
    if d.get("kind") != "struct" or not t.startswith(WORKSPACE):
        return None
    big = [(i, fl["ty"]) for i, fl in enumerate(d["variants"][0]["fields"]) if it.ty.size_bits(fl["ty"]) > 0]
    if len(big) == 1 and big[0][1].startswith(WORKSPACE) and it.ty.get(big[0][1]).get("kind") == "struct":
        return big[0]
    return None


def by_name(it, v, t, name):
    try:
        return _by_name(it, v, t, name)
    except Undecided:
        inner = _newtype_inner(it, t)
        if inner is None:
            raise
        i, ti = inner
        return by_name(it, it.as_agg(v, t).f[i], ti, name)


def _by_name(it, v, t, name):
    d = it.ty.get(t)
    fields = d["variants"][0]["fields"]
    role = ROLES.get(name)
    if role is not None and t.startswith(WORKSPACE):
        hits = [i for i, fl in enumerate(fields) if role(fl["ty"], t)]
        if len(hits) == 1:
            i = hits[0]
            return it.as_agg(v, t).f[i], fields[i]["ty"], i
    for i, fl in enumerate(fields):
        if fl["name"] == name:
            return it.as_agg(v, t).f[i], fl["ty"], i
    raise Undecided("no field with the role of %s in %s" % (name, t))


def with_field(it, v, t, name, new):
    try:
        sub, ft, i = _by_name(it, v, t, name)
    except Undecided:
        inner = _newtype_inner(it, t)
        if inner is None:
            raise
        j, tj = inner
        f = list(it.as_agg(v, t).f)
        f[j] = with_field(it, f[j], tj, name, new)
        return Agg(f)
    f = list(it.as_agg(v, t).f)
    f[i] = new
    return Agg(f)


def c04_compress(report, cfg):
    f = facts.load(cfg)
    n = 0
    for mod, variant, ctype, bbytes in (("u32x4", 256, "blake_hash::Compressor256", 64), ("u64x4", 512, "blake_hash::Compressor512", 128)):
        keys = f.find(r"^blake_hash::%s::put_block::<" % mod)
        for key in sorted(keys):
            machine = facts.short(key.split("put_block::<", 1)[1][:-1], 80)
            ikey = "%s::put_block<%s>@%s" % (mod, machine, cfg)
            n += 1

            def go():
                bv.reset()
                it = Interp(f, MODELS)
                w = B.PARAMS[variant][0]
                inst = f.instances[key]
                atys = inst["body"]["locals"][1:5]
                hbits = bv.inp("h", 8 * w)
                ccell = it.new_cell(it.from_bits(hbits, ctype), "compressor")
                blk, bcell = bytes_cell(it, "block", bbytes)
                t0, t1 = bv.inp("t0", w), bv.inp("t1", w)
                mach = Agg(()) if it.ty.size_bits(atys[0]) == 0 else it.from_bits((), atys[0])
                it.call_instance(key, [mach, Ptr(ccell, ()), Ptr(bcell, ()), Agg([t0, t1])])
                if it.asserts or it.panics:
                    a = (it.asserts or it.panics)[0]
                    report.violated("R4.1", ikey + ":assert", "operand-dependent assertion/panic inside the compression function: %s" % (a.get("kind") or a.get("site"),))
                    return
                got = it.to_bits(ccell.v, ctype)
                exp = bv.concat(B.compress_block(variant, words(hbits, w), blk, t0, t1))
                i = bv.first_diff(got, exp)
                if i is None:
                    report.ok("R4.1", ikey, sample={"fn": "%s::put_block" % mod, "machine": machine, "config": cfg, "atoms": bv.n_atoms()})
                else:
                    report.violated("R4.1", ikey, "BLAKE-%d compression on %s: chaining word %d bit %d differs from the specification (got %s)"
                                    % (variant, machine, i // w, i % w, bv.show_bit(got[i], 2)[:200]), graphs=(got, exp))
            engine_guard(go, report, "R4.1", ikey)
    return n


def c04_default(report, cfg):
    f = facts.load(cfg)
    for name, variant in VARIANTS.items():
        ikey = "%s::default@%s" % (name, cfg)

        def go():
            bv.reset()
            it = Interp(f, MODELS)
            w = B.PARAMS[variant][0]
            t = "blake_hash::%s" % name
            d = find(f, r"^<blake_hash::%s as core::default::Default>::default$" % name)
            v = it.call_instance(d, [])
            comp, ct, _ = by_name(it, v, t, "compressor")
            got = it.to_bits(comp, ct)
            exp = bv.concat(bv.const(x, w) for x in B.IV[variant])
            tt, ttt, _ = by_name(it, v, t, "t")
            buf, bt, _ = by_name(it, v, t, "buffer")
            pos, _, _ = by_name(it, buf, bt, "pos")
            if got != exp:
                report.violated("R4.2", ikey, "%s initial value differs from the specified IV (fractional square roots of primes)" % name)
            elif bv.const_value(it.to_bits(tt, ttt)) != 0 or bv.const_value(pos) != 0:
                report.violated("R4.2", ikey, "%s::default does not start with counter 0 / empty buffer" % name)
            else:
                report.ok("R4.2", ikey, sample={"hasher": name, "iv0": hex(B.IV[variant][0])})
        engine_guard(go, report, "R4.2", ikey)


def compress_hook_rx(w, f=None):
    """Regex for the instances that ARE the compression function of word size w: the Machine-generic
    bodies of blake_hash (called from a dispatch arm) that take a &mut to the chaining state and a pointer to a
    block.  Found by structure; today that is `uNNx4::put_block::<M>`."""
    if f is None:
        return r"^blake_hash::u%dx4::put_block::<" % w
    from . import check_dispatch, graph
    state_bits, block_bytes = 8 * w, 2 * w          # 8 words of chaining state, 16 message words
    defs = set()
    ms = check_dispatch.machines(f)
    for k, inst in f.instances.items():
        b = inst.get("body")
        if not b or f.defs[inst["def"]]["krate"] != "blake_hash":
            continue
        ga = inst.get("generic_args", [])
        if not ga or ga[0].get("ty") not in ms:
            continue
        has_state = has_block = False
        for t in b["locals"][1:1 + b["arg_count"]]:
            d = f.types.get(t)
            if not d or d.get("kind") != "ref":
                continue
            pt = f.types.get(d["pointee"])
            if not pt:
                continue
            if t.startswith("&mut ") and pt.get("size") == state_bits // 8:
                has_state = True
            elif not t.startswith("&mut ") and (pt.get("size") == block_bytes or pt.get("kind") == "slice"):
                has_block = True
        if has_state and has_block:
            defs.add(inst["def"])
    # keep the innermost ones: a candidate that calls another candidate is a wrapper (per-block method,
    # block-run helper); the one-block compression itself calls none
    wrappers = set()
    for k, inst in f.instances.items():
        if inst["def"] in defs and inst.get("body"):
            for _, t in graph.call_sites(inst):
                ce = t.get("callee")
                if ce and ce.get("inst") in f.instances and f.instances[ce["inst"]]["def"] in defs and f.instances[ce["inst"]]["def"] != inst["def"]:
                    wrappers.add(inst["def"])
    outer = sorted(defs - wrappers) or sorted(defs)
    if not outer:
        raise Undecided("no Machine-generic compression body with (&mut state, &block) parameters in blake_hash")
    return "^(%s)::<" % "|".join(re.escape(d) for d in outer)


def compress_hook(name, ctype, variant):
    w = B.PARAMS[variant][0]

    def h(it, key, args, callee):
        # the Machine-generic compression body: every path to the compression function (per-block method,
        # block-run helper, any dispatch arm) ends here.  Parameters are recognised by type: the &mut chaining
        # state, the block, and the counter as a pair or as two words (low, high).
        loc = it.ins[key]["body"]["locals"]
        selfp = blockp = None
        words = []
        st_t = blk_t = None
        for a, t in zip(args, loc[1:1 + len(args)]):
            d = it.ty.get(t) if t in it.ty.t else None
            if isinstance(a, Ptr) and d is not None and d["kind"] == "ref":
                pt = d["pointee"]
                if t.startswith("&mut ") and selfp is None and it.ty.kind(pt) != "slice" and it.ty.size_bits(pt) == 8 * w:
                    selfp, st_t = a, pt
                elif blockp is None and not t.startswith("&mut "):
                    blockp, blk_t = a, pt
            elif isinstance(a, Agg) and len(a.f) == 2 and all(isinstance(x, tuple) and len(x) == w for x in a.f):
                words = list(a.f)
            elif isinstance(a, tuple) and len(a) == w:
                words.append(a)
        if selfp is None or blockp is None or len(words) != 2:
            raise Undecided("compression body %s: parameters not recognised" % key[:80])
        hb = it.to_bits(it.deref_read(selfp, st_t), st_t)
        if it.ty.kind(blk_t) == "slice":
            blk = bv.concat(it.to_bits(x, "u8") for x in it.slice_elems(blockp))
        else:
            blk = it.to_bits(it.deref_read(blockp, blk_t), blk_t)
        new = bv.ufn(name, (hb, blk, words[0], words[1]), len(hb))
        it.deref_write(selfp, st_t, it.from_bits(new, st_t))
        return Agg(())
    return h


def ufn_compress(name, w):
    def cf(hwords, blk, a, b):
        flat = bv.concat(hwords)
        out = bv.ufn(name, (flat, blk, a, b), len(flat))
        return words(out, w)
    return cf


ALLOWED_ASSERTS = [
    (r"^blake_hash::Blake\d+::increase_count$", "overflow:Add",
     "t.1 += 1 overflows only when more than 2^64 (2^128) bits were hashed, beyond the format limit stated in the property"),
]


def filter_asserts(it, report, rule, ikey):
    bad = False
    for a in it.asserts:
        ok = False
        for rx, kind, why in ALLOWED_ASSERTS:
            if re.search(rx, a["inst"]) and a["kind"] == kind:
                ok = True
        if not ok and a["kind"].startswith("overflow") and only_beyond_format_limit(a, ("t1",)):
            ok = True       # guards the high counter word only: beyond the format limit, wherever it is written
        if not ok:
            report.violated(rule, "%s:%s:%s" % (ikey, facts.short(a["inst"], 80), a["kind"]),
                            "%s assertion in %s can fail for some inputs" % (a["kind"], facts.short(a["inst"], 80)))
            bad = True
    for p in it.panics:
        report.violated(rule, "%s:panic" % ikey, "conditional panic: %s" % (p["site"],))
        bad = True
    return bad


def c04_finalize(report, cfg, positions=None, only=None):
    f = facts.load(cfg)
    total = 0
    for name, variant in VARIANTS.items():
        if only and name != only:
            continue
        w, rounds, bb, rot, marker, outb = B.PARAMS[variant]
        ctype = "blake_hash::Compressor%d" % (256 if w == 32 else 512)
        ufn_name = "BLAKE%d_COMPRESS" % (256 if w == 32 else 512)
        t = "blake_hash::%s" % name
        fin = find(f, r"^<blake_hash::%s as digest::fixed::FixedOutputDirty>::finalize_into_dirty$" % name)
        hooks = {compress_hook_rx(w, f): compress_hook(ufn_name, ctype, variant)}
        plist = positions(bb) if positions else range(bb)
        bad_positions = []
        done = 0
        for p in plist:
            ikey = "%s::finalize pos=%d@%s" % (name, p, cfg)

            def go():
                bv.reset()
                it = Interp(f, MODELS, hooks=hooks)
                size = it.ty.size_bits(t)
                v = it.from_bits(bv.inp("self", size), t)
                hbits = bv.inp("h", 8 * w)
                v = with_field(it, v, t, "compressor", it.from_bits(hbits, ctype))
                t0, t1 = bv.inp("t0", w), bv.inp("t1", w)
                v = with_field(it, v, t, "t", Agg([t0, t1]))
                buf, bt, _ = by_name(it, v, t, "buffer")
                data = bv.inp("buf", 8 * bb)
                _, gat, _ = by_name(it, buf, bt, "buffer")
                buf = with_field(it, buf, bt, "buffer", Agg(data[8 * i:8 * i + 8] for i in range(bb)))
                buf = with_field(it, buf, bt, "pos", bv.const(p, 64))
                v = with_field(it, v, t, "buffer", buf)
                scell = it.new_cell(v, "hasher")
                _, ocell = bytes_cell(it, "out", outb)
                it.call_instance(fin, [Ptr(scell, ()), Ptr(ocell, ())])
                if filter_asserts(it, report, "R4.3", ikey):
                    return False
                got = cell_bytes(ocell)
                exp = B.finalize(variant, words(hbits, w), data[:8 * p], p, t0, t1, compress_fn=ufn_compress(ufn_name, w))
                i = bv.first_diff(got, exp)
                if i is not None:
                    report.violated("R4.3", ikey, "%s finalisation with %d buffered bytes: digest byte %d differs from the specified padding/length/counter sequence"
                                    % (name, p, i // 8), graphs=(got, exp), boundary=(it, 1))
                    return False
                return True
            r = engine_guard(go, report, "R4.3", ikey)
            if r:
                done += 1
                report.ok("R4.3", ikey, sample={"hasher": name, "buffered": p, "config": cfg} if p in (0, bb - 1) else None)
            total += 1
    return total


def c04_dispatch(report, cfg):
    """The dispatching Compressor::put_block (all run-time arms joined, or the compile-time arm of
    a no-std build) equals the specified compression function."""
    f = facts.load(cfg)
    for variant, ctype, bbytes in ((256, "blake_hash::Compressor256", 64), (512, "blake_hash::Compressor512", 128)):
        ikey = "%s::put_block (dispatch)@%s" % (ctype.split("::")[1], cfg)

        def go():
            bv.reset()
            it = Interp(f, MODELS)
            w = B.PARAMS[variant][0]
            key = find(f, r"^%s::put_block$" % re.escape(ctype))
            hbits = bv.inp("h", 8 * w)
            ccell = it.new_cell(it.from_bits(hbits, ctype), "compressor")
            blk, bcell = bytes_cell(it, "block", bbytes)
            t0, t1 = bv.inp("t0", w), bv.inp("t1", w)
            it.call_instance(key, [Ptr(ccell, ()), Ptr(bcell, ()), Agg([t0, t1])])
            if filter_asserts(it, report, "R4.5", ikey):
                return
            got = it.to_bits(ccell.v, ctype)
            exp = bv.concat(B.compress_block(variant, words(hbits, w), blk, t0, t1))
            if got == exp:
                report.ok("R4.5", ikey, sample={"fn": ikey, "cpu_symbols": sorted({n for n, _ in bv.support(got) if n.startswith("cpu.")})})
            else:
                cpu = sorted({n for n, _ in bv.support(got) if n.startswith("cpu.")})
                report.violated("R4.5", ikey, "BLAKE-%d compression through the dispatcher differs from the specification%s"
                                % (variant, " and depends on CPU detection results %s (backends disagree)" % cpu if cpu else ""), graphs=(got, exp))
        engine_guard(go, report, "R4.5", ikey)


def c04_update(report, cfg, rule="R17.1"):
    """R17.1 / R8.3 for BLAKE: update processes the complete blocks of (buffer ++ data), advancing the
    double-word bit counter by 8*blocksize with carry before each block."""
    f = facts.load(cfg)
    total = 0
    for name, variant in VARIANTS.items():
        w, rounds, bb, rot, marker, outb = B.PARAMS[variant]
        ctype = "blake_hash::Compressor%d" % (256 if w == 32 else 512)
        ufn_name = "BLAKE%d_COMPRESS" % (256 if w == 32 else 512)
        t = "blake_hash::%s" % name
        upd = find(f, r"^<blake_hash::%s as digest::Update>::update::<&\[u8\]>$" % name)
        hooks = {compress_hook_rx(w, f): compress_hook(ufn_name, ctype, variant)}
        for p in (0, 1, 17, bb - 1):
            # ... and long pieces (a threshold-based fast path would start somewhere): > 4 and > 8 blocks
            for ln in (0, 1, bb - p - 1 if bb - p - 1 > 1 else 2, bb - p, bb, 2 * bb + 3, 4 * bb + bb - 14, 8 * bb + 3):
                ikey = "%s::update pos=%d len=%d@%s" % (name, p, ln, cfg)
                total += 1

                def go():
                    bv.reset()
                    it = Interp(f, MODELS, hooks=hooks)
                    v = it.from_bits(bv.inp("self", it.ty.size_bits(t)), t)
                    hbits = bv.inp("h", 8 * w)
                    v = with_field(it, v, t, "compressor", it.from_bits(hbits, ctype))
                    t0, t1 = bv.inp("t0", w), bv.inp("t1", w)
                    v = with_field(it, v, t, "t", Agg([t0, t1]))
                    buf, bt, _ = by_name(it, v, t, "buffer")
                    old = bv.inp("buf", 8 * bb)
                    buf = with_field(it, buf, bt, "buffer", Agg(old[8 * i:8 * i + 8] for i in range(bb)))
                    buf = with_field(it, buf, bt, "pos", bv.const(p, 64))
                    v = with_field(it, v, t, "buffer", buf)
                    scell = it.new_cell(v, "hasher")
                    dbits, dcell = bytes_cell(it, "data", ln)
                    it.call_instance(upd, [Ptr(scell, ()), Ptr(dcell, (), idx=0, meta=ln, ety="u8")])
                    if filter_asserts(it, report, rule, ikey):
                        return
                    stream = old[:8 * p] + dbits
                    nfull = (p + ln) // bb
                    cf = ufn_compress(ufn_name, w)
                    h = words(hbits, w)
                    e0, e1 = t0, t1
                    for i in range(nfull):
                        e0, e1 = B.add_count(w, e0, e1, 8 * bb)
                        h = cf(h, stream[8 * bb * i:8 * bb * (i + 1)], e0, e1)
                    v2 = scell.v
                    comp2, _, _ = by_name(it, v2, t, "compressor")
                    tt, _, _ = by_name(it, v2, t, "t")
                    buf2, _, _ = by_name(it, v2, t, "buffer")
                    pos2, _, _ = by_name(it, buf2, bt, "pos")
                    if tt.f[0] != e0 or tt.f[1] != e1:
                        report.violated(rule, ikey, "%s::update: the bit counter after %d block(s) is not the double-word sum t + 8*%d*blocks with carry into the high word" % (name, nfull, bb),
                                        graphs=(tt.f[0] + tt.f[1], e0 + e1))
                    elif it.to_bits(comp2, ctype) != bv.concat(h):
                        report.violated(rule, ikey, "%s::update: blocks or per-block counters fed to the compression function differ from the stream's complete blocks" % name,
                                        graphs=(it.to_bits(comp2, ctype), bv.concat(h)), boundary=(it, nfull))
                    elif bv.const_value(pos2) != (p + ln) - nfull * bb:
                        report.violated(rule, ikey, "%s::update: wrong number of buffered bytes" % name)
                    else:
                        report.ok(rule, ikey, sample={"hasher": name, "pos": p, "len": ln} if (p, ln) == (1, 2 * bb + 3) else None)
                engine_guard(go, report, rule, ikey)
    return total
