"""Models used by E2 in place of bodies: x86 intrinsics (from the Intel definitions) and the core
library functions whose real bodies are raw-pointer plumbing (slice iterators, indexing,
split/copy, integer byte conversions).  Each model states the safe-Rust semantics of the function
on the structured values of interp.py."""
import re

from . import bv
from .bv import ZERO, ONE
from .interp import Agg, Enum, Ptr, FnVal, Undecided, Diverge, UNDEF, Place
from .facts import typenum_value

M = {}
PREFIX = []
M["__prefix__"] = PREFIX


def model(*names):
    def deco(f):
        for n in names:
            M[n] = f
        return f
    return deco


def prefix(p):
    def deco(f):
        PREFIX.append((p, f))
        return f
    return deco


def NONE():
    return Enum(0)


def SOME(x):
    return Enum(1, [x])


def cint(v, what="value"):
    c = bv.const_value(v) if isinstance(v, tuple) else None
    if c is None:
        raise Undecided("symbolic %s" % what)
    return c


def lanes(x, w):
    assert len(x) % w == 0
    return [x[i:i + w] for i in range(0, len(x), w)]


def join(ls):
    return bv.concat(ls)


def imm(ce, i=0):
    return int(ce["generic_args"][i]["int"])


X86 = "core::core_arch::x86::"
X64 = "core::core_arch::x86_64::"


def x86(*names):
    full = []
    for n in names:
        for mod in ("sse2", "ssse3", "sse41", "avx", "avx2", "aes", "sse"):
            full.append(X86 + mod + "::" + n)
            full.append(X64 + mod + "::" + n)
    return model(*full)


# ------------------------------------------------------------------ x86 intrinsics
def _lanewise_add(w):
    def f(it, key, a, ce):
        return join(bv.add(x, y) for x, y in zip(lanes(a[0], w), lanes(a[1], w)))
    return f


x86("_mm_add_epi8")(_lanewise_add(8))
x86("_mm_add_epi32", "_mm256_add_epi32")(_lanewise_add(32))
x86("_mm_add_epi64")(_lanewise_add(64))


@x86("_mm_and_si128", "_mm256_and_si256")
def _and(it, key, a, ce):
    return bv.and_(a[0], a[1])


@x86("_mm_or_si128", "_mm256_or_si256")
def _or(it, key, a, ce):
    return bv.or_(a[0], a[1])


@x86("_mm_xor_si128", "_mm256_xor_si256")
def _xor(it, key, a, ce):
    return bv.xor(a[0], a[1])


@x86("_mm_andnot_si128", "_mm256_andnot_si256")
def _andnot(it, key, a, ce):
    return bv.and_(bv.not_(a[0]), a[1])


def _shift(w, left):
    def f(it, key, a, ce):
        k = imm(ce)
        if k < 0 or k >= w:
            k = w
        return join((bv.shl(x, k) if left else bv.lshr(x, k)) for x in lanes(a[0], w))
    return f


x86("_mm_slli_epi16")(_shift(16, True))
x86("_mm_srli_epi16")(_shift(16, False))
x86("_mm_slli_epi32", "_mm256_slli_epi32")(_shift(32, True))
x86("_mm_srli_epi32", "_mm256_srli_epi32")(_shift(32, False))
x86("_mm_slli_epi64")(_shift(64, True))
x86("_mm_srli_epi64")(_shift(64, False))


def _sra(w):
    def f(it, key, a, ce):
        k = imm(ce)
        if k < 0 or k >= w:
            k = w - 1 if True else w
            return join((x[-1],) * w for x in lanes(a[0], w)) if imm(ce) >= w else join(bv.ashr(x, k) for x in lanes(a[0], w))
        return join(bv.ashr(x, k) for x in lanes(a[0], w))
    return f


x86("_mm_srai_epi16")(_sra(16))
x86("_mm_srai_epi32", "_mm256_srai_epi32")(_sra(32))


@x86("_mm_slli_si128", "_mm_bslli_si128")
def _bslli(it, key, a, ce):
    k = imm(ce) & 0xff
    if k > 15:
        k = 16
    return bv.shl(a[0], 8 * k)


@x86("_mm_srli_si128", "_mm_bsrli_si128")
def _bsrli(it, key, a, ce):
    k = imm(ce) & 0xff
    if k > 15:
        k = 16
    return bv.lshr(a[0], 8 * k)


def _shuf32(x, im):
    l = lanes(x, 32)
    return join(l[(im >> (2 * i)) & 3] for i in range(4))


@x86("_mm_shuffle_epi32")
def _shuffle_epi32(it, key, a, ce):
    return _shuf32(a[0], imm(ce))


@x86("_mm256_shuffle_epi32")
def _shuffle256_epi32(it, key, a, ce):
    return join(_shuf32(h, imm(ce)) for h in lanes(a[0], 128))


@x86("_mm_shufflelo_epi16")
def _shufflelo(it, key, a, ce):
    im = imm(ce)
    l = lanes(a[0], 16)
    return join([l[(im >> (2 * i)) & 3] for i in range(4)] + l[4:])


@x86("_mm_shufflehi_epi16")
def _shufflehi(it, key, a, ce):
    im = imm(ce)
    l = lanes(a[0], 16)
    return join(l[:4] + [l[4 + ((im >> (2 * i)) & 3)] for i in range(4)])


def _pshufb(x, m):
    xb = lanes(x, 8)
    out = []
    for mb in lanes(m, 8):
        c = bv.const_value(mb)
        if c is None:
            raise Undecided("pshufb with non-constant control")
        out.append((ZERO,) * 8 if c & 0x80 else xb[c & 15])
    return join(out)


@x86("_mm_shuffle_epi8")
def _shuffle_epi8(it, key, a, ce):
    return _pshufb(a[0], a[1])


@x86("_mm256_shuffle_epi8")
def _shuffle256_epi8(it, key, a, ce):
    return join(_pshufb(x, m) for x, m in zip(lanes(a[0], 128), lanes(a[1], 128)))


@x86("_mm_alignr_epi8")
def _alignr(it, key, a, ce):
    k = imm(ce)
    if k > 32:
        k = 32
    cat = a[1] + a[0]
    return bv.lshr(cat, 8 * k)[:128]


def _unpack(w, hi):
    def f(it, key, a, ce):
        x, y = lanes(a[0], w), lanes(a[1], w)
        n = len(x) // 2
        base = n if hi else 0
        out = []
        for i in range(n):
            out.append(x[base + i])
            out.append(y[base + i])
        return join(out)
    return f


for _w in (8, 16, 32, 64):
    x86("_mm_unpacklo_epi%d" % _w)(_unpack(_w, False))
    x86("_mm_unpackhi_epi%d" % _w)(_unpack(_w, True))


@x86("_mm_packus_epi16")
def _packus(it, key, a, ce):
    out = []
    for src in (a[0], a[1]):
        for l in lanes(src, 16):
            if bv.const_value(l[8:]) == 0:
                out.append(l[:8])        # 0..255 is not saturated
            else:
                out.append(bv.ufn("packus16", (l,), 8))
    return join(out)


@x86("_mm_packs_epi16")
def _packs(it, key, a, ce):
    out = []
    for src in (a[0], a[1]):
        for l in lanes(src, 16):
            if bv.const_value(l[8:]) == 0:
                # 0..255 as signed 16-bit: values >= 128 saturate to 0x7f
                out.append(bv.ite(l[7], bv.const(0x7f, 8), l[:8]))
            else:
                out.append(bv.ufn("packs16", (l,), 8))
    return join(out)


@x86("_mm_set1_epi8", "_mm256_set1_epi8")
def _set1_8(it, key, a, ce):
    n = 32 if "256" in key else 16
    return join([a[0]] * n)


@x86("_mm_set1_epi64x")
def _set1_64(it, key, a, ce):
    return a[0] + a[0]


@x86("_mm_set_epi64x")
def _set_64(it, key, a, ce):
    return a[1] + a[0]


@x86("_mm256_set_epi64x")
def _set256_64(it, key, a, ce):
    return a[3] + a[2] + a[1] + a[0]


@x86("_mm_set_epi32")
def _set_32(it, key, a, ce):
    return a[3] + a[2] + a[1] + a[0]


@x86("_mm_setzero_si128")
def _setzero(it, key, a, ce):
    return (ZERO,) * 128


@x86("_mm256_setr_m128i")
def _setr128(it, key, a, ce):
    return a[0] + a[1]


@x86("_mm256_set_m128i")
def _set128(it, key, a, ce):
    return a[1] + a[0]


@x86("_mm_cvtsi128_si64", "_mm_cvtsi128_si64x")
def _cvt128_64(it, key, a, ce):
    return a[0][:64]


@x86("_mm_cvtsi128_si32")
def _cvt128_32(it, key, a, ce):
    return a[0][:32]


@x86("_mm_cvtsi32_si128")
def _cvt32_128(it, key, a, ce):
    return bv.zext(a[0], 128)


@x86("_mm_cvtsi64_si128", "_mm_cvtsi64x_si128")
def _cvt64_128(it, key, a, ce):
    return bv.zext(a[0], 128)


@x86("_mm_extract_epi64")
def _extract64(it, key, a, ce):
    return lanes(a[0], 64)[imm(ce) & 1]


@x86("_mm_extract_epi32")
def _extract32(it, key, a, ce):
    return lanes(a[0], 32)[imm(ce) & 3]


@x86("_mm_insert_epi32")
def _insert32(it, key, a, ce):
    l = lanes(a[0], 32)
    l[imm(ce) & 3] = a[1]
    return join(l)


@x86("_mm_insert_epi64")
def _insert64(it, key, a, ce):
    l = lanes(a[0], 64)
    l[imm(ce) & 1] = a[1]
    return join(l)


@x86("_mm_insert_epi16")
def _insert16(it, key, a, ce):
    l = lanes(a[0], 16)
    l[imm(ce) & 7] = a[1][:16]
    return join(l)


@x86("_mm_insert_epi8")
def _insert8(it, key, a, ce):
    l = lanes(a[0], 8)
    l[imm(ce) & 15] = a[1][:8]
    return join(l)


@x86("_mm_extract_epi16")
def _extract16(it, key, a, ce):
    return bv.zext(lanes(a[0], 16)[imm(ce) & 7], 32)


@x86("_mm_extract_epi8")
def _extract8(it, key, a, ce):
    return bv.zext(lanes(a[0], 8)[imm(ce) & 15], 32)


@x86("_mm256_extract_epi32")
def _extract256_32(it, key, a, ce):
    return lanes(a[0], 32)[imm(ce) & 7]


@x86("_mm256_extract_epi64")
def _extract256_64(it, key, a, ce):
    return lanes(a[0], 64)[imm(ce) & 3]


@x86("_mm256_insert_epi32")
def _insert256_32(it, key, a, ce):
    l = lanes(a[0], 32)
    l[imm(ce) & 7] = a[1]
    return join(l)


@x86("_mm256_insert_epi64")
def _insert256_64(it, key, a, ce):
    l = lanes(a[0], 64)
    l[imm(ce) & 3] = a[1]
    return join(l)


@x86("_mm_blend_epi32", "_mm256_blend_epi32")
def _blend32(it, key, a, ce):
    im = imm(ce)
    return join(y if (im >> i) & 1 else x for i, (x, y) in enumerate(zip(lanes(a[0], 32), lanes(a[1], 32))))


@x86("_mm256_blend_epi16")
def _blend256_16(it, key, a, ce):
    im = imm(ce)
    return join(y if (im >> (i % 8)) & 1 else x for i, (x, y) in enumerate(zip(lanes(a[0], 16), lanes(a[1], 16))))


@x86("_mm_blendv_epi8", "_mm256_blendv_epi8")
def _blendv8(it, key, a, ce):
    return join(bv.ite(m[7], y, x) for x, y, m in zip(lanes(a[0], 8), lanes(a[1], 8), lanes(a[2], 8)))


def _lanewise_mul(w):
    def f(it, key, a, ce):
        return join(bv.mul(x, y) for x, y in zip(lanes(a[0], w), lanes(a[1], w)))
    return f


x86("_mm_mullo_epi16", "_mm256_mullo_epi16")(_lanewise_mul(16))
x86("_mm_mullo_epi32", "_mm256_mullo_epi32")(_lanewise_mul(32))


@x86("_mm_mul_epu32", "_mm256_mul_epu32")
def _mul_epu32(it, key, a, ce):
    return join(bv.mul(bv.zext(x[:32], 64), bv.zext(y[:32], 64)) for x, y in zip(lanes(a[0], 64), lanes(a[1], 64)))


def _minmax(w, op, pick_a):
    def f(it, key, a, ce):
        out = []
        for x, y in zip(lanes(a[0], w), lanes(a[1], w)):
            c = bv.cmp_bit(op, x, y)
            out.append(bv.ite(c, x, y) if pick_a else bv.ite(c, y, x))
        return join(out)
    return f


for _w, _sfx in ((8, "epu8"), (16, "epu16"), (32, "epu32")):
    x86("_mm_min_" + _sfx, "_mm256_min_" + _sfx)(_minmax(_w, "ult", True))
    x86("_mm_max_" + _sfx, "_mm256_max_" + _sfx)(_minmax(_w, "ult", False))
for _w, _sfx in ((8, "epi8"), (16, "epi16"), (32, "epi32")):
    x86("_mm_min_" + _sfx, "_mm256_min_" + _sfx)(_minmax(_w, "slt", True))
    x86("_mm_max_" + _sfx, "_mm256_max_" + _sfx)(_minmax(_w, "slt", False))


def _cvtext(src_w, dst_w, signed):
    def f(it, key, a, ce):
        n = (256 if "256" in key.split("::")[-1].split("_cvt")[0] else 128) // dst_w
        ext = bv.sext if signed else bv.zext
        return join(ext(x, dst_w) for x in lanes(a[0], src_w)[:n])
    return f


for _s in (8, 16, 32):
    for _d in (16, 32, 64):
        if _d > _s:
            x86("_mm_cvtepu%d_epi%d" % (_s, _d), "_mm256_cvtepu%d_epi%d" % (_s, _d))(_cvtext(_s, _d, False))
            x86("_mm_cvtepi%d_epi%d" % (_s, _d), "_mm256_cvtepi%d_epi%d" % (_s, _d))(_cvtext(_s, _d, True))


def _shift_by_count(w, kind):
    def f(it, key, a, ce):
        c = bv.const_value(a[1][:64])
        if c is None:
            raise Undecided("vector shift with a non-constant count register")
        if c >= w:
            if kind == "sra":
                return join((x[-1],) * w for x in lanes(a[0], w))
            return (ZERO,) * len(a[0])
        op = {"sll": bv.shl, "srl": bv.lshr, "sra": bv.ashr}[kind]
        return join(op(x, c) for x in lanes(a[0], w))
    return f


for _w in (16, 32, 64):
    x86("_mm_sll_epi%d" % _w, "_mm256_sll_epi%d" % _w)(_shift_by_count(_w, "sll"))
    x86("_mm_srl_epi%d" % _w, "_mm256_srl_epi%d" % _w)(_shift_by_count(_w, "srl"))
for _w in (16, 32):
    x86("_mm_sra_epi%d" % _w, "_mm256_sra_epi%d" % _w)(_shift_by_count(_w, "sra"))
x86("_mm256_srai_epi16")(_sra(16))


@x86("_mm256_slli_si256", "_mm256_bslli_epi128")
def _bslli256(it, key, a, ce):
    k = min(imm(ce) & 0xff, 16)
    return join(bv.shl(h, 8 * k) for h in lanes(a[0], 128))


@x86("_mm256_srli_si256", "_mm256_bsrli_epi128")
def _bsrli256(it, key, a, ce):
    k = min(imm(ce) & 0xff, 16)
    return join(bv.lshr(h, 8 * k) for h in lanes(a[0], 128))


@x86("_mm256_shufflelo_epi16")
def _shufflelo256(it, key, a, ce):
    im = imm(ce)
    out = []
    for h in lanes(a[0], 128):
        l = lanes(h, 16)
        out += [l[(im >> (2 * i)) & 3] for i in range(4)] + l[4:]
    return join(out)


@x86("_mm256_shufflehi_epi16")
def _shufflehi256(it, key, a, ce):
    im = imm(ce)
    out = []
    for h in lanes(a[0], 128):
        l = lanes(h, 16)
        out += l[:4] + [l[4 + ((im >> (2 * i)) & 3)] for i in range(4)]
    return join(out)


@x86("_mm256_packus_epi16")
def _packus256(it, key, a, ce):
    return join(_packus(it, key, (x, y), ce) for x, y in zip(lanes(a[0], 128), lanes(a[1], 128)))


@x86("_mm256_packs_epi16")
def _packs256(it, key, a, ce):
    return join(_packs(it, key, (x, y), ce) for x, y in zip(lanes(a[0], 128), lanes(a[1], 128)))


@x86("_mm256_permutevar8x32_epi32")
def _permvar8x32(it, key, a, ce):
    l = lanes(a[0], 32)
    out = []
    for ix in lanes(a[1], 32):
        c = bv.const_value(ix[:3])
        if c is None:
            raise Undecided("vpermd with non-constant control")
        out.append(l[c])
    return join(out)


@x86("_mm_move_epi64")
def _move64(it, key, a, ce):
    return a[0][:64] + (ZERO,) * 64


@x86("_mm256_extracti128_si256", "_mm256_extractf128_si256")
def _extracti128(it, key, a, ce):
    return lanes(a[0], 128)[imm(ce) & 1]


@x86("_mm256_inserti128_si256", "_mm256_insertf128_si256")
def _inserti128(it, key, a, ce):
    l = lanes(a[0], 128)
    l[imm(ce) & 1] = a[1]
    return join(l)


@x86("_mm256_permute2x128_si256")
def _perm2x128(it, key, a, ce):
    im = imm(ce)
    src = lanes(a[0], 128) + lanes(a[1], 128)
    out = []
    for sh in (0, 4):
        c = (im >> sh) & 0xf
        out.append((ZERO,) * 128 if c & 8 else src[c & 3])
    return join(out)


@x86("_mm_loadu_si128", "_mm256_loadu_si256", "_mm_lddqu_si128", "_mm256_lddqu_si256")
def _loadu(it, key, a, ce):
    return it.deref_read(a[0], "core::core_arch::x86::__m256i" if "256" in key else "core::core_arch::x86::__m128i")


@x86("_mm_storeu_si128", "_mm256_storeu_si256")
def _storeu(it, key, a, ce):
    it.deref_write(a[0], "core::core_arch::x86::__m256i" if "256" in key else "core::core_arch::x86::__m128i", a[1])
    return Agg(())


@x86("_mm_load_si128", "_mm256_load_si256", "_mm_store_si128", "_mm256_store_si256")
def _aligned(it, key, a, ce):
    raise Undecided("aligned load/store %s (alignment is not tracked by the value graph)" % key)


@x86("_mm_cmpgt_epi8")
def _cmpgt8(it, key, a, ce):
    out = []
    for x, y in zip(lanes(a[0], 8), lanes(a[1], 8)):
        if bv.const_value(x) == 0:
            b = y[7]                      # 0 > y  <=>  y negative
        else:
            b = bv.cmp_bit("slt", y, x)
        out.append((b,) * 8)
    return join(out)


def _cmpeq(w):
    def f(it, key, a, ce):
        out = []
        for x, y in zip(lanes(a[0], w), lanes(a[1], w)):
            out.append((bv.cmp_bit("eq", x, y),) * w)
        return join(out)
    return f


x86("_mm_cmpeq_epi8")(_cmpeq(8))
x86("_mm_cmpeq_epi32")(_cmpeq(32))
x86("_mm_cmpeq_epi64")(_cmpeq(64))


def aes_shiftrows_src(i):
    row, col = i % 4, i // 4
    return row + 4 * ((col + row) % 4)


def _cmpgt(w):
    def f(it, key, a, ce):
        out = []
        for x, y in zip(lanes(a[0], w), lanes(a[1], w)):
            if bv.const_value(x) == 0:
                b = y[w - 1]
            else:
                b = bv.cmp_bit("slt", y, x)
            out.append((b,) * w)
        return join(out)
    return f


def _cmplt(w):
    g = _cmpgt(w)

    def f(it, key, a, ce):
        return g(it, key, [a[1], a[0]], ce)
    return f


for _w in (8, 16, 32):
    x86("_mm_cmpgt_epi%d" % _w, "_mm256_cmpgt_epi%d" % _w)(_cmpgt(_w))
    x86("_mm_cmplt_epi%d" % _w)(_cmplt(_w))
x86("_mm_cmpeq_epi16", "_mm256_cmpeq_epi16")(_cmpeq(16))
x86("_mm256_cmpeq_epi8")(_cmpeq(8))
x86("_mm256_cmpeq_epi32")(_cmpeq(32))
x86("_mm256_cmpeq_epi64")(_cmpeq(64))
x86("_mm_add_epi16", "_mm256_add_epi16")(_lanewise_add(16))
x86("_mm256_add_epi8")(_lanewise_add(8))
x86("_mm256_add_epi64")(_lanewise_add(64))


def _lanewise_sub(w):
    def f(it, key, a, ce):
        return join(bv.sub(x, y) for x, y in zip(lanes(a[0], w), lanes(a[1], w)))
    return f


for _w in (8, 16, 32, 64):
    x86("_mm_sub_epi%d" % _w, "_mm256_sub_epi%d" % _w)(_lanewise_sub(_w))
x86("_mm256_slli_epi16")(_shift(16, True))
x86("_mm256_srli_epi16")(_shift(16, False))
x86("_mm256_slli_epi64")(_shift(64, True))
x86("_mm256_srli_epi64")(_shift(64, False))


@x86("_mm_movemask_epi8", "_mm256_movemask_epi8")
def _movemask8(it, key, a, ce):
    bits = tuple(l[7] for l in lanes(a[0], 8))
    return bv.zext(bits, 32)


@x86("_mm_set1_epi16", "_mm256_set1_epi16")
def _set1_16(it, key, a, ce):
    return join([a[0]] * (16 if "256" in key else 8))


@x86("_mm_set1_epi32", "_mm256_set1_epi32")
def _set1_32(it, key, a, ce):
    return join([a[0]] * (8 if "256" in key else 4))


@x86("_mm256_set1_epi64x")
def _set1_64_256(it, key, a, ce):
    return join([a[0]] * 4)


@x86("_mm_setr_epi32", "_mm256_setr_epi32", "_mm_setr_epi8", "_mm_setr_epi16", "_mm256_setr_epi64x")
def _setr(it, key, a, ce):
    return join(list(a))


@x86("_mm_set_epi8", "_mm_set_epi16", "_mm256_set_epi32", "_mm256_set_epi8")
def _set_rev(it, key, a, ce):
    return join(list(reversed(a)))


@x86("_mm256_castsi256_si128")
def _cast256_128(it, key, a, ce):
    return a[0][:128]


@x86("_mm256_castsi128_si256", "_mm256_zextsi128_si256")
def _cast128_256(it, key, a, ce):
    if "zext" in key:
        return a[0] + (ZERO,) * 128
    return a[0] + bv.ufn("undef_upper", (a[0],), 128)


@x86("_mm256_broadcastsi128_si256")
def _bcast128(it, key, a, ce):
    return a[0] + a[0]


@x86("_mm256_setzero_si256")
def _setzero256(it, key, a, ce):
    return (ZERO,) * 256


@x86("_mm256_permute4x64_epi64")
def _perm4x64(it, key, a, ce):
    im = imm(ce)
    l = lanes(a[0], 64)
    return join(l[(im >> (2 * i)) & 3] for i in range(4))


def _unpack256(w, hi):
    g = _unpack(w, hi)

    def f(it, key, a, ce):
        return join(g(it, key, [x, y], ce) for x, y in zip(lanes(a[0], 128), lanes(a[1], 128)))
    return f


for _w in (8, 16, 32, 64):
    x86("_mm256_unpacklo_epi%d" % _w)(_unpack256(_w, False))
    x86("_mm256_unpackhi_epi%d" % _w)(_unpack256(_w, True))


@x86("_mm256_alignr_epi8")
def _alignr256(it, key, a, ce):
    k = min(imm(ce), 32)
    out = []
    for x, y in zip(lanes(a[0], 128), lanes(a[1], 128)):
        out.append(bv.lshr(y + x, 8 * k)[:128])
    return join(out)


@x86("_mm_blend_epi16")
def _blend16(it, key, a, ce):
    im = imm(ce)
    return join(y if (im >> i) & 1 else x for i, (x, y) in enumerate(zip(lanes(a[0], 16), lanes(a[1], 16))))


@x86("_mm_loadl_epi64")
def _loadl(it, key, a, ce):
    return bv.zext(it.deref_read(a[0], "u64"), 128)


@x86("_mm_aesenclast_si128")
def _aesenclast(it, key, a, ce):
    xb = lanes(a[0], 8)
    out = []
    for i in range(16):
        out.append(bv.ufn("AES_S", (xb[aes_shiftrows_src(i)],), 8))
    return bv.xor(join(out), a[1])


@x86("_mm256_zeroupper", "_mm256_zeroall")
def _zeroupper(it, key, a, ce):
    return Agg(())


# ------------------------------------------------------------------ panics
@prefix("core::panicking::")
def _panic(it, key, a, ce):
    msg = ""
    if a and isinstance(a[0], Ptr) and a[0].meta is not None:
        try:
            bs = it.slice_elems(a[0])
            msg = bytes(bv.const_value(b) or 0 for b in bs).decode("utf8", "replace")
        except Exception:
            pass
    raise Diverge(("panic", key, msg))


@model("core::result::unwrap_failed", "core::option::unwrap_failed", "core::option::expect_failed",
       "core::slice::index::slice_index_fail", "core::slice::copy_from_slice_impl::len_mismatch_fail",
       "std::rt::panic_fmt", "core::panicking::panic_fmt")
def _panic2(it, key, a, ce):
    raise Diverge(("panic", key, ""))


@prefix("core::fmt::")
def _fmt(it, key, a, ce):
    return Agg(())


# ------------------------------------------------------------------ integers
def _intname(key):
    m = re.search(r"impl (u8|u16|u32|u64|u128|usize|i8|i16|i32|i64|i128|isize)>", key)
    return m.group(1)


def _num(*names):
    return model(*["core::num::<impl %s>::%s" % (t, name) for name in names
                   for t in ("u8", "u16", "u32", "u64", "u128", "usize", "i8", "i16", "i32", "i64", "i128", "isize")])


@_num("from_le_bytes")
def _from_le(it, key, a, ce):
    return a[0] if isinstance(a[0], tuple) else bv.concat(a[0].f)


@_num("from_be_bytes")
def _from_be(it, key, a, ce):
    x = a[0] if isinstance(a[0], tuple) else bv.concat(a[0].f)
    return bv.bswap(x)


@_num("from_ne_bytes")
def _from_ne(it, key, a, ce):
    return a[0] if isinstance(a[0], tuple) else bv.concat(a[0].f)


@_num("to_le_bytes")
def _to_le_bytes(it, key, a, ce):
    return Agg(lanes(a[0], 8))


@_num("to_ne_bytes")
def _to_ne_bytes(it, key, a, ce):
    return Agg(lanes(a[0], 8))


@_num("to_be_bytes")
def _to_be_bytes(it, key, a, ce):
    return Agg(lanes(bv.bswap(a[0]), 8))


@_num("to_be", "swap_bytes", "from_be")
def _to_be(it, key, a, ce):
    return bv.bswap(a[0])


@_num("to_le", "from_le")
def _to_le(it, key, a, ce):
    return a[0]


@_num("rotate_left")
def _rotl(it, key, a, ce):
    return bv.rotl(a[0], cint(a[1], "rotate amount") % len(a[0]))


@_num("rotate_right")
def _rotr(it, key, a, ce):
    return bv.rotr(a[0], cint(a[1], "rotate amount") % len(a[0]))


@_num("wrapping_add")
def _wadd(it, key, a, ce):
    return bv.add(a[0], a[1])


@_num("wrapping_sub")
def _wsub(it, key, a, ce):
    return bv.sub(a[0], a[1])


@_num("wrapping_mul")
def _wmul(it, key, a, ce):
    return bv.mul(a[0], a[1])


@_num("wrapping_neg")
def _wneg(it, key, a, ce):
    return bv.neg(a[0])


@_num("overflowing_add")
def _oadd(it, key, a, ce):
    return Agg([bv.add(a[0], a[1]), (bv.carry_add(a[0], a[1]),)])


@_num("overflowing_sub")
def _osub(it, key, a, ce):
    return Agg([bv.sub(a[0], a[1]), (bv.cmp_bit("ult", a[0], a[1]),)])


@prefix("core::convert::num::<impl core::convert::From<")
def _from_int(it, key, a, ce):
    m = re.search(r"From<(\w+)> for (\w+)>", key)
    src, dst = m.group(1), m.group(2)
    bits = {"u8": 8, "u16": 16, "u32": 32, "u64": 64, "u128": 128, "usize": 64,
            "i8": 8, "i16": 16, "i32": 32, "i64": 64, "i128": 128, "isize": 64, "bool": 1}[dst]
    if src.startswith("i"):
        return bv.sext(a[0], bits)
    return bv.zext(a[0], bits)


@model("core::cmp::min")
def _min(it, key, a, ce):
    t = ce["generic_args"][0]["ty"]
    bits, signed = it.ty.int_info(t)
    c = bv.cmp_bit("slt" if signed else "ult", a[1], a[0])   # min returns a unless b < a
    return bv.ite(c, a[1], a[0])


@model("core::cmp::max")
def _max(it, key, a, ce):
    t = ce["generic_args"][0]["ty"]
    bits, signed = it.ty.int_info(t)
    c = bv.cmp_bit("slt" if signed else "ult", a[1], a[0])   # max returns b unless b < a
    return bv.ite(c, a[0], a[1])


@model("core::mem::size_of")
def _size_of(it, key, a, ce):
    return bv.const(it.ty.get(ce["generic_args"][0]["ty"])["size"], 64)


@model("core::mem::align_of")
def _align_of(it, key, a, ce):
    return bv.const(it.ty.get(ce["generic_args"][0]["ty"])["align"], 64)


# ------------------------------------------------------------------ clone / default of plain data
@prefix("core::clone::impls::<impl core::clone::Clone for ")
def _clone_prim(it, key, a, ce):
    return _deref_any(it, a[0], it.dest_ty)


def _deref_any(it, p, t=None):
    """Value behind a thin pointer.  For a pointer into a run of elements the pointee is the element,
    unless the pointer is a cast view (vty) or the caller knows the pointee type t."""
    if not isinstance(p, Ptr):
        raise Undecided("clone of non-pointer")
    if p.idx is not None:
        if p.meta is not None:
            raise Undecided("clone of slice")
        if t is not None and p.ety is not None and t != p.ety and it.ty.get(t) != it.ty.get(p.ety):
            return it.deref_read(p, t)
        if p.vty is not None and p.vty != p.ety:
            return it.deref_read(p, p.vty)
        arr = it.read_path(p.cell.v, p.path)
        return arr.f[p.idx]
    return it.read_path(p.cell.v, p.path)


@model("core::array::<impl core::clone::Clone for [T; N]>::clone", "core::clone::Clone::clone",
       "<block_buffer::BlockBuffer<BlockSize> as core::clone::Clone>::clone",
       "<generic_array::GenericArray<T, N> as core::clone::Clone>::clone",
       "generic_array::impls::<impl core::clone::Clone for generic_array::GenericArray<T, N>>::clone")
def _clone_copy(it, key, a, ce):
    return _deref_any(it, a[0], it.dest_ty)


@model("<core::marker::PhantomData<T> as core::clone::Clone>::clone",
       "<core::marker::PhantomData<T> as core::default::Default>::default",
       "<typenum::uint::UInt<U, B> as core::default::Default>::default",
       "<typenum::uint::UTerm as core::default::Default>::default")
def _unit(it, key, a, ce):
    return Agg(())


def _zero_of(it, t):
    return it.zero_value(t)


@model("generic_array::impls::<impl core::default::Default for generic_array::GenericArray<T, N>>::default",
       "<block_buffer::BlockBuffer<BlockSize> as core::default::Default>::default",
       "core::tuple::<impl core::default::Default for (U, T)>::default")
def _default_zero(it, key, a, ce):
    t = it.dest_ty
    return _zero_of(it, t)


@prefix("core::array::<impl core::default::Default for [T;")
def _default_arr(it, key, a, ce):
    return _zero_of(it, it.dest_ty)


# ------------------------------------------------------------------ typenum
@model("<typenum::uint::UInt<U, B> as typenum::marker_traits::Unsigned>::to_usize",
       "<typenum::uint::UInt<U, B> as typenum::marker_traits::Unsigned>::to_u64")
def _typenum64(it, key, a, ce):
    m = re.match(r"<(.*) as typenum::marker_traits::Unsigned>::to_", key)
    return bv.const(typenum_value(m.group(1)), 64)


@model("<typenum::uint::UInt<U, B> as typenum::marker_traits::Unsigned>::to_u32")
def _typenum32(it, key, a, ce):
    m = re.match(r"<(.*) as typenum::marker_traits::Unsigned>::to_", key)
    return bv.const(typenum_value(m.group(1)), 32)


# ------------------------------------------------------------------ slices
def _as_slice(it, p, t=None):
    """Normalise a pointer to an array / GenericArray / slice into a fat slice pointer."""
    if not isinstance(p, Ptr):
        raise Undecided("slice op on %r" % (p,))
    if p.idx is not None and p.meta is not None:
        return p
    if t is not None:
        d = it.ty.get(t)
        if d["kind"] in ("ref", "rawptr"):
            t = d["pointee"]
        if it.ty.is_arraylike(t):
            n = it.ty.array_len(t)
            e = it.ty.elem(t)
            if p.idx is not None:
                if p.ety is not None and (p.ety == t or it.ty.get(p.ety) == it.ty.get(t)):
                    # pointer to an element of an outer array that is itself the array
                    return Ptr(p.cell, p.path + (("i", p.idx, None),), idx=0, meta=n, ety=e)
                # pointer into a larger element run reinterpreted as array of n
                es, ps = it.ty.size_bits(e), it.ty.size_bits(p.ety)
                if es != ps:
                    raise Undecided("array view granularity")
                return Ptr(p.cell, p.path, idx=p.idx, meta=n, ety=p.ety)
            return Ptr(p.cell, p.path, idx=0, meta=n, ety=e)
    if p.idx is None:
        v = it.read_path(p.cell.v, p.path)
        if isinstance(v, Agg):
            return Ptr(p.cell, p.path, idx=0, meta=len(v.f), ety=None)
    raise Undecided("cannot view %r as slice" % (p,))


@model("core::slice::<impl [T]>::len")
def _len(it, key, a, ce):
    return bv.const(_as_slice(it, a[0]).meta, 64)


@model("core::slice::<impl [T]>::is_empty")
def _is_empty(it, key, a, ce):
    return (ONE if _as_slice(it, a[0]).meta == 0 else ZERO,)


@model("core::slice::<impl [T]>::as_ptr", "core::slice::<impl [T]>::as_mut_ptr")
def _as_ptr(it, key, a, ce):
    s = _as_slice(it, a[0])
    return Ptr(s.cell, s.path, idx=s.idx, meta=None, ety=s.ety)


@model("<generic_array::GenericArray<T, N> as core::ops::deref::Deref>::deref",
       "<generic_array::GenericArray<T, N> as core::ops::deref::DerefMut>::deref_mut",
       "generic_array::GenericArray::<T, N>::as_slice", "generic_array::GenericArray::<T, N>::as_mut_slice",
       "<generic_array::GenericArray<T, N> as core::convert::AsRef<[T]>>::as_ref",
       "<generic_array::GenericArray<T, N> as core::convert::AsMut<[T]>>::as_mut")
def _ga_deref(it, key, a, ce):
    ga = it.ins[key]["generic_args"]
    et, n = ga[0]["ty"], typenum_value(ga[1]["ty"])
    p = a[0]
    if not isinstance(p, Ptr):
        raise Undecided("GenericArray deref of %r" % (p,))
    if p.idx is not None:
        if p.ety is not None and it.ty.size_bits(p.ety) != it.ty.size_bits(et):
            es, vs = it.ty.size_bits(p.ety), it.ty.size_bits(et)
            if es and vs % es == 0:
                return Ptr(p.cell, p.path, idx=p.idx, meta=n, ety=p.ety, vty=et)     # elements are views over the run
            raise Undecided("GenericArray view granularity")
        return Ptr(p.cell, p.path, idx=p.idx, meta=n, ety=p.ety or et)
    v = it.read_path(p.cell.v, p.path)
    if isinstance(v, tuple):
        es = it.ty.size_bits(et)
        v = Agg(v[i * es:(i + 1) * es] for i in range(n))
        p.cell.v = it.write_path(p.cell.v, p.path, v)
    if not isinstance(v, Agg) or len(v.f) != n:
        raise Undecided("GenericArray value shape")
    return Ptr(p.cell, p.path, idx=0, meta=n, ety=et)


@model("generic_array::GenericArray::<T, N>::from_slice", "generic_array::GenericArray::<T, N>::from_mut_slice")
def _ga_from_slice(it, key, a, ce):
    s = _as_slice(it, a[0])
    t = it.ty.get(it.dest_ty)["pointee"]
    n = it.ty.array_len(t)
    if s.meta != n:
        raise Diverge(("panic", key, "from_slice length %d != %d" % (s.meta, n)))
    return Ptr(s.cell, s.path, idx=s.idx, meta=None, ety=s.ety)


def _range_of(it, idxv, ity, ln):
    """Decode an index value of type `ity` into (start, end) or an int."""
    if isinstance(idxv, tuple):
        return cint(idxv, "index")
    name = ity.split("<")[0]
    f = [cint(x, "range bound") for x in idxv.f if isinstance(x, tuple)]
    if name.endswith("RangeFull"):
        return (0, ln)
    if name.endswith("RangeFrom"):
        return (f[0], ln)
    if name.endswith("RangeToInclusive"):
        return (0, f[0] + 1)
    if name.endswith("RangeTo"):
        return (0, f[0])
    if name.endswith("RangeInclusive"):
        return (f[0], f[1] + 1)
    if name.endswith("Range"):
        return (f[0], f[1])
    raise Undecided("index type %s" % ity)


def _index(it, key, a, ce, arr_ty=None):
    s = _as_slice(it, a[0], arr_ty)
    ga = ce["generic_args"]
    ity = ga[1]["ty"] if len(ga) > 1 and "ty" in ga[1] else ga[-1]["ty"]
    # the index type is the generic argument that is not the element type
    for g in ga:
        if "ty" in g and ("Range" in g["ty"] or g["ty"] == "usize"):
            ity = g["ty"]
    r = _range_of(it, a[1], ity, s.meta)
    if isinstance(r, int):
        if r >= s.meta:
            raise Diverge(("panic", key, "index %d out of bounds %d" % (r, s.meta)))
        return it.elem_ptr(s, r)
    st, en = r
    if st > en or en > s.meta:
        raise Diverge(("panic", key, "range %d..%d out of bounds %d" % (st, en, s.meta)))
    return it.subslice(s, st, en - st)


@model("core::slice::index::<impl core::ops::index::Index<I> for [T]>::index",
       "core::slice::index::<impl core::ops::index::IndexMut<I> for [T]>::index_mut")
def _slice_index(it, key, a, ce):
    return _index(it, key, a, ce)


@model("core::array::<impl core::ops::index::Index<I> for [T; N]>::index",
       "core::array::<impl core::ops::index::IndexMut<I> for [T; N]>::index_mut")
def _array_index(it, key, a, ce):
    # recover the array type from the instance key: <impl Index<I> for [T; N]>
    m = re.search(r" for (\[.*\])>::index", key)
    return _index(it, key, a, ce, m.group(1) if m and m.group(1) in it.ty.t else None)


@model("core::slice::<impl [T]>::split_at", "core::slice::<impl [T]>::split_at_mut")
def _split_at(it, key, a, ce):
    s = _as_slice(it, a[0])
    mid = cint(a[1], "split point")
    if mid > s.meta:
        raise Diverge(("panic", key, "split_at mid %d > len %d" % (mid, s.meta)))
    return Agg([it.subslice(s, 0, mid), it.subslice(s, mid, s.meta - mid)])


@model("core::slice::<impl [T]>::copy_from_slice", "core::slice::<impl [T]>::clone_from_slice")
def _copy_from_slice(it, key, a, ce):
    d, s = _as_slice(it, a[0]), _as_slice(it, a[1])
    if d.meta != s.meta:
        raise Diverge(("panic", key, "copy_from_slice length mismatch %d vs %d" % (d.meta, s.meta)))
    it.slice_store(d, it.slice_elems(s))
    return Agg(())


@model("core::slice::<impl [T]>::fill")
def _fill(it, key, a, ce):
    d = _as_slice(it, a[0])
    it.slice_store(d, [a[1]] * d.meta)
    return Agg(())


@model("core::slice::<impl [T]>::align_to", "core::slice::<impl [T]>::align_to_mut")
def _align_to(it, key, a, ce):
    """Split by alignment of the element address.  The address of a root allocation modulo 64 is the
    selector `it.align_case` (chosen by the check, swept over all values); everything else is exact."""
    s = _as_slice(it, a[0])
    if s.vty is not None:
        raise Undecided("align_to of a view")
    ga = ce["generic_args"]
    ut = ga[-1]["ty"]
    et = s.ety or ga[0]["ty"]
    es = it.ty.get(et)["size"]
    us, ua = it.ty.get(ut)["size"], it.ty.get(ut)["align"]
    if es == 0 or us == 0 or us % es or ua > 64:
        raise Undecided("align_to::<%s> over %s" % (ut, et))
    base = it.cell_address(s.cell)
    addr = (base + s.idx * es) % 64
    head_bytes = (-addr) % ua
    if head_bytes % es:
        head = s.meta
    else:
        head = min(s.meta, head_bytes // es)
    body_n = ((s.meta - head) * es) // us
    tail_start = head + body_n * (us // es)
    body = Ptr(s.cell, s.path, idx=s.idx + head, meta=body_n, ety=et, vty=ut)
    return Agg([it.subslice(s, 0, head), body, it.subslice(s, tail_start, s.meta - tail_start)])


@model("core::ptr::read_unaligned", "core::ptr::read")
def _read_unaligned(it, key, a, ce):
    return it.deref_read(a[0], ce["generic_args"][0]["ty"])


@model("core::ptr::write_unaligned", "core::ptr::write")
def _write_unaligned(it, key, a, ce):
    it.deref_write(a[0], ce["generic_args"][0]["ty"], a[1])
    return Agg(())


@model("core::ptr::const_ptr::<impl *const T>::offset", "core::ptr::mut_ptr::<impl *mut T>::offset",
       "core::ptr::const_ptr::<impl *const T>::add", "core::ptr::mut_ptr::<impl *mut T>::add")
def _ptr_offset(it, key, a, ce):
    n = cint(a[1], "pointer offset")
    if n >> 63:
        n -= 1 << 64
    return it.ptr_offset(a[0], n, ce["generic_args"][0]["ty"])


@model("core::intrinsics::write_bytes", "core::ptr::write_bytes")
def _write_bytes(it, key, a, ce):
    p, val, cnt = a
    n = cint(cnt, "write_bytes count")
    t = ce["generic_args"][0]["ty"]
    if n == 0:
        return Agg(())
    if p.ety != t:
        raise Undecided("write_bytes through cast pointer")
    es = it.ty.size_bits(t)
    it.slice_store(Ptr(p.cell, p.path, idx=p.idx, meta=n, ety=p.ety), [join([val] * (es // 8))] * n)
    return Agg(())


# ------------------------------------------------------------------ iterators
class It:
    """Immutable model of a core iterator."""
    __slots__ = ("k", "a")

    def __init__(self, k, *a):
        self.k = k
        self.a = a

    def __eq__(self, o):
        return isinstance(o, It) and self.k == o.k and self.a == o.a

    def __hash__(self):
        return hash((self.k, self.a))

    def __repr__(self):
        return "It(%s)" % self.k


def it_next(it, x):
    """-> (item or None, new iterator)"""
    k = x.k
    if k == "slice":        # (slice ptr, pos, end)
        s, pos, end = x.a
        if pos >= end:
            return None, x
        return it.elem_ptr(s, pos), It("slice", s, pos + 1, end)
    if k == "chunks":       # (slice ptr, pos, size, exact)
        s, pos, size, exact = x.a
        rem = s.meta - pos
        if rem <= 0 or (exact and rem < size):
            return None, x
        n = min(size, rem)
        return it.subslice(s, pos, n), It("chunks", s, pos + n, size, exact)
    if k == "zip":
        ia, ib = x.a
        va, ia2 = it_next(it, ia)
        if va is None:
            return None, x
        vb, ib2 = it_next(it, ib)
        if vb is None:
            return None, It("zip", ia2, ib)
        return Agg([va, vb]), It("zip", ia2, ib2)
    if k == "enumerate":
        inner, n = x.a
        v, inner2 = it_next(it, inner)
        if v is None:
            return None, x
        return Agg([bv.const(n, 64), v]), It("enumerate", inner2, n + 1)
    if k == "rev":
        (inner,) = x.a
        v, inner2 = it_next_back(it, inner)
        return v, It("rev", inner2)
    if k == "range":        # (start, end, bits)
        s, e, bits = x.a
        if s >= e:
            return None, x
        return bv.const(s, bits), It("range", s + 1, e, bits)
    if k == "rangefrom":
        s, bits = x.a
        return bv.const(s, bits), It("rangefrom", s + 1, bits)
    if k == "vals":
        vals, pos = x.a
        if pos >= len(vals):
            return None, x
        return vals[pos], It("vals", vals, pos + 1)
    if k == "byref":
        (p,) = x.a
        inner = _deref_any(it, p)
        v, inner2 = it_next(it, inner)
        _store_any(it, p, inner2)
        return v, x
    raise Undecided("next of iterator %s" % k)


def it_next_back(it, x):
    k = x.k
    if k == "range":
        s, e, bits = x.a
        if s >= e:
            return None, x
        return bv.const(e - 1, bits), It("range", s, e - 1, bits)
    if k == "slice":
        s, pos, end = x.a
        if pos >= end:
            return None, x
        return it.elem_ptr(s, end - 1), It("slice", s, pos, end - 1)
    raise Undecided("next_back of iterator %s" % k)


def to_iter(it, v, t):
    """Turn an IntoIterator value of type t into an iterator model."""
    if isinstance(v, It):
        return v
    d = it.ty.get(t) if t in it.ty.t else None
    if isinstance(v, Ptr):
        if v.idx is None and v.meta is None:
            try:
                tgt = it.read_path(v.cell.v, v.path)
            except Undecided:
                tgt = None
            if isinstance(tgt, It):
                return It("byref", v)          # `&mut iterator` used as an iterator
        s = _as_slice(it, v, t)
        return It("slice", s, 0, s.meta)
    if isinstance(v, Agg) and t is not None and t in it.ty.t and it.ty.is_arraylike(t):
        return It("vals", tuple(v.f), 0)          # array by value
    if isinstance(v, Agg) and t is not None:
        name = t.split("<")[0]
        if name.endswith("ops::range::RangeFrom"):
            inner = it.ty.get(t)["args"][0]
            return It("rangefrom", cint(v.f[0], "range start"), it.ty.int_info(inner)[0])
        if name.endswith("ops::range::Range"):
            inner = it.ty.get(t)["args"][0]
            return It("range", cint(v.f[0], "range start"), cint(v.f[1], "range end"), it.ty.int_info(inner)[0])
    raise Undecided("to_iter of %r : %s" % (v, t))


@model("core::slice::<impl [T]>::iter", "core::slice::<impl [T]>::iter_mut",
       "core::slice::iter::<impl core::iter::traits::collect::IntoIterator for &'a [T]>::into_iter",
       "core::slice::iter::<impl core::iter::traits::collect::IntoIterator for &'a mut [T]>::into_iter")
def _iter(it, key, a, ce):
    s = _as_slice(it, a[0])
    return It("slice", s, 0, s.meta)


@model("core::slice::<impl [T]>::chunks_exact", "core::slice::<impl [T]>::chunks_exact_mut")
def _chunks_exact(it, key, a, ce):
    n = cint(a[1], "chunk size")
    if n == 0:
        raise Diverge(("panic", key, "chunk size 0"))
    return It("chunks", _as_slice(it, a[0]), 0, n, True)


@model("core::slice::<impl [T]>::chunks", "core::slice::<impl [T]>::chunks_mut")
def _chunks(it, key, a, ce):
    n = cint(a[1], "chunk size")
    if n == 0:
        raise Diverge(("panic", key, "chunk size 0"))
    return It("chunks", _as_slice(it, a[0]), 0, n, False)


@model("core::slice::iter::ChunksExactMut::<'a, T>::into_remainder")
def _into_remainder(it, key, a, ce):
    x = a[0]
    s, pos, size, exact = x.a
    full = ((s.meta - pos) // size) * size
    return it.subslice(s, pos + full, s.meta - pos - full)


@model("core::slice::iter::ChunksExact::<'a, T>::remainder")
def _remainder(it, key, a, ce):
    x = _deref_any(it, a[0])
    s, pos, size, exact = x.a
    full = ((s.meta - pos) // size) * size
    return it.subslice(s, pos + full, s.meta - pos - full)


@model("<I as core::iter::traits::collect::IntoIterator>::into_iter")
def _into_iter(it, key, a, ce):
    v = a[0]
    if isinstance(v, It):
        return v
    t = ce["generic_args"][0]["ty"]
    name = t.split("<")[0]
    if name.endswith("ops::range::Range") or name.endswith("RangeInclusive"):
        return v          # Range is its own iterator (struct value); next is modelled on the struct
    if name.endswith("RangeFrom"):
        return v
    return v


@model("core::iter::traits::iterator::Iterator::zip")
def _zip(it, key, a, ce):
    ga = ce["generic_args"]
    return It("zip", to_iter(it, a[0], ga[0]["ty"]), to_iter(it, a[1], ga[1]["ty"]))


@model("core::iter::traits::iterator::Iterator::enumerate")
def _enumerate(it, key, a, ce):
    return It("enumerate", to_iter(it, a[0], ce["generic_args"][0]["ty"]), 0)


@model("core::iter::traits::iterator::Iterator::rev")
def _rev(it, key, a, ce):
    return It("rev", to_iter(it, a[0], ce["generic_args"][0]["ty"]))


def _next_on_cell(it, p, conv=None):
    """Generic `next(&mut self)` on an iterator stored behind pointer p."""
    x = _deref_any(it, p)
    if conv is not None:
        x = conv(x)
    v, x2 = it_next(it, x)
    _store_any(it, p, x2)
    return NONE() if v is None else SOME(v)


def _store_any(it, p, v):
    if p.idx is not None:
        raise Undecided("store through element pointer")
    p.cell.v = it.write_path(p.cell.v, p.path, v)


@model("<core::slice::iter::Iter<'a, T> as core::iter::traits::iterator::Iterator>::next",
       "<core::slice::iter::IterMut<'a, T> as core::iter::traits::iterator::Iterator>::next",
       "<core::slice::iter::ChunksExact<'a, T> as core::iter::traits::iterator::Iterator>::next",
       "<core::slice::iter::ChunksExactMut<'a, T> as core::iter::traits::iterator::Iterator>::next",
       "<core::slice::iter::Chunks<'a, T> as core::iter::traits::iterator::Iterator>::next",
       "<core::slice::iter::ChunksMut<'a, T> as core::iter::traits::iterator::Iterator>::next",
       "<core::iter::adapters::zip::Zip<A, B> as core::iter::traits::iterator::Iterator>::next",
       "<core::iter::adapters::enumerate::Enumerate<I> as core::iter::traits::iterator::Iterator>::next",
       "<core::iter::adapters::rev::Rev<I> as core::iter::traits::iterator::Iterator>::next")
def _next(it, key, a, ce):
    return _next_on_cell(it, a[0])


@model("<&mut I as core::iter::traits::iterator::Iterator>::next")
def _next_mutref(it, key, a, ce):
    inner = _deref_any(it, a[0])
    return _next_on_cell(it, inner)


@model("core::iter::range::<impl core::iter::traits::iterator::Iterator for core::ops::range::Range<A>>::next")
def _range_next(it, key, a, ce):
    p = a[0]
    r = _deref_any(it, p)
    if isinstance(r, It):
        return _next_on_cell(it, p)
    s, e = r.f
    cs, cend = bv.const_value(s), bv.const_value(e)
    if cs is None or cend is None:
        raise Undecided("range iteration with symbolic bounds")
    if cs >= cend:
        return NONE()
    _store_any(it, p, Agg([bv.const(cs + 1, len(s)), e]))
    return SOME(s)


@model("core::iter::range::<impl core::iter::traits::double_ended::DoubleEndedIterator for core::ops::range::Range<A>>::next_back")
def _range_next_back(it, key, a, ce):
    p = a[0]
    r = _deref_any(it, p)
    s, e = r.f
    cs, cend = cint(s, "range start"), cint(e, "range end")
    if cs >= cend:
        return NONE()
    ne = bv.const(cend - 1, len(e))
    _store_any(it, p, Agg([s, ne]))
    return SOME(ne)


@model("core::ops::range::RangeInclusive::<Idx>::new")
def _ri_new(it, key, a, ce):
    return Agg([a[0], a[1], (ZERO,)])


@model("core::iter::range::<impl core::iter::traits::iterator::Iterator for core::ops::range::RangeInclusive<A>>::next")
def _ri_next(it, key, a, ce):
    p = a[0]
    r = _deref_any(it, p)
    s, e, ex = r.f
    cs, cend, cex = cint(s, "range start"), cint(e, "range end"), cint(ex, "range flag")
    if cex or cs > cend:
        return NONE()
    if cs < cend:
        _store_any(it, p, Agg([bv.const(cs + 1, len(s)), e, ex]))
    else:
        _store_any(it, p, Agg([s, e, (ONE,)]))
    return SOME(s)


@model("<core::slice::iter::Iter<'a, T> as core::iter::traits::iterator::Iterator>::fold")
def _fold(it, key, a, ce):
    x, acc, f = a
    while True:
        v, x = it_next(it, x)
        if v is None:
            return acc
        acc = _call_fn(it, f, [acc, v], ce["generic_args"][-1]["ty"])


def _call_fn(it, f, args, fty):
    """Call a function value (fn item, fn pointer or closure) with args."""
    if isinstance(f, FnVal):
        inst = f.inst.get("inst") if isinstance(f.inst, dict) else f.inst
        return it.call_instance(inst, args)
    d = it.ty.get(fty)
    if d["kind"] == "closure":
        # find the closure body instance: its key starts with the closure def path
        cands = [k for k in it.ins if it.ins[k]["def"] == d["def"]]
        if len(cands) > 1:
            # several monomorphic copies: the body whose self parameter has exactly this closure type
            def self_ty(k):
                b = it.ins[k].get("body")
                t = b["locals"][1] if b and len(b["locals"]) > 1 else ""
                for pre in ("&mut ", "&"):
                    if t.startswith(pre):
                        t = t[len(pre):]
                return t
            cands = [k for k in cands if self_ty(k) == fty]
        if len(cands) == 1:
            b = it.ins[cands[0]].get("body")
            recv = f
            if b and len(b["locals"]) > 1 and b["locals"][1].startswith("&") and not isinstance(f, Ptr):
                recv = Ptr(it.new_cell(f, "closure"), ())      # Fn / FnMut bodies take the closure by reference
            return it.call_instance(cands[0], [recv] + args)
        raise Undecided("closure body lookup for %s: %d candidates" % (d["def"], len(cands)))
    raise Undecided("call of %r" % (f,))


@model("lazy_static::lazy::Lazy::<T>::get")
def _lazy_get(it, key, a, ce):
    """lazy_static: the value is whatever the initialiser returns (evaluated once per interpreter)."""
    cache = it.__dict__.setdefault("_lazy_cells", {}) if hasattr(it, "__dict__") else None
    if cache is None:
        raise Undecided("lazy_static cache")
    if key not in cache:
        v = _call_fn(it, a[1], [], ce["generic_args"][-1]["ty"])
        cache[key] = it.new_cell(v, "lazy_static")
    return Ptr(cache[key], ())


@model("<&T as core::convert::AsRef<U>>::as_ref", "<&mut T as core::convert::AsRef<U>>::as_ref")
def _asref_ref(it, key, a, ce):
    # (&T).as_ref() = T::as_ref(*self)
    inner = _deref_any(it, a[0])
    t = ce["generic_args"][0]["ty"]
    d = it.ty.get(t)
    if d["kind"] in ("slice",) or (isinstance(inner, Ptr) and inner.meta is not None):
        return inner
    raise Undecided("AsRef through reference for %s" % t)


@model("core::convert::<impl core::convert::AsRef<[T]> for [T]>::as_ref",
       "core::convert::<impl core::convert::AsMut<[T]> for [T]>::as_mut")
def _asref_slice(it, key, a, ce):
    return a[0]


@model("core::array::<impl core::convert::AsRef<[T]> for [T; N]>::as_ref")
def _asref_arr(it, key, a, ce):
    return _as_slice(it, a[0])


@model("<T as core::convert::TryInto<U>>::try_into")
def _try_into(it, key, a, ce):
    ga = ce["generic_args"]
    src, dst = ga[0]["ty"], ga[1]["ty"]
    ds = it.ty.get(dst)
    if isinstance(a[0], Ptr) and a[0].meta is not None:
        s = a[0]
        if ds["kind"] == "array":
            if s.meta != ds["len"]:
                return Enum(1, [Agg(())])
            return Enum(0, [Agg(it.slice_elems(s))])
        if ds["kind"] == "ref" and it.ty.is_arraylike(ds["pointee"]):
            n = it.ty.array_len(ds["pointee"])
            if it.ty.is_ga(ds["pointee"]):
                # generic-array: From<&[T]> for &GenericArray asserts the length
                if s.meta != n:
                    raise Diverge(("panic", key, "GenericArray::from_slice length"))
                return Enum(0, [Ptr(s.cell, s.path, idx=s.idx, meta=None, ety=s.ety)])
            if s.meta != n:
                return Enum(1, [Agg(())])
            return Enum(0, [Ptr(s.cell, s.path, idx=s.idx, meta=None, ety=s.ety)])
    # integer conversions: fall back to the real body
    inst = it.ins.get(key)
    if inst is not None and inst.get("body") is not None:
        return it.call_body(key, a)
    raise Undecided("try_into %s -> %s" % (src, dst))


@model("<T as core::convert::Into<U>>::into")
def _into(it, key, a, ce):
    return it.call_body(key, a)


@model("zerocopy::util::macro_util::must_use")
def _must_use(it, key, a, ce):
    return a[0]


@model("zerocopy::FromBytes::read_from_bytes")
def _read_from_bytes(it, key, a, ce):
    t = ce["generic_args"][0]["ty"]
    s = _as_slice(it, a[0])
    size = it.ty.get(t)["size"]
    if s.meta != size:
        return Enum(1, [Agg(())])
    bits = join(it.to_bits(x, "u8") for x in it.slice_elems(s))
    return Enum(0, [it.from_bits(bits, t)])


@model("zerocopy::IntoBytes::write_to")
def _write_to(it, key, a, ce):
    t = ce["generic_args"][0]["ty"]
    v = _deref_any(it, a[0], t)
    d = _as_slice(it, a[1])
    bits = it.to_bits(v, t)
    if d.meta * 8 != len(bits):
        return Enum(1, [Agg(())])
    it.slice_store(d, lanes(bits, 8))
    return Enum(0, [Agg(())])


def _argty(it, ce, key):
    return ce["generic_args"][0]["ty"]


# ------------------------------------------------------------------ generic iterator adaptors
def _it_of(it, v, t=None):
    """Iterator model behind a receiver: the It itself, a `&mut It`, or an IntoIterator value."""
    if isinstance(v, It):
        return v, None
    if isinstance(v, Ptr) and v.idx is None and v.meta is None:
        try:
            tgt = it.read_path(v.cell.v, v.path)
        except Undecided:
            tgt = None
        if isinstance(tgt, It):
            return tgt, v
    return to_iter(it, v, t), None


def it_next_ext(it, x):
    k = x.k
    if k == "map":
        inner, f, fty = x.a
        v, inner2 = it_next_ext(it, inner)
        if v is None:
            return None, x
        return _call_fn(it, f, [v], fty), It("map", inner2, f, fty)
    if k in ("cloned", "copied"):
        (inner,) = x.a
        v, inner2 = it_next_ext(it, inner)
        if v is None:
            return None, x
        return _deref_any(it, v), It(k, inner2)
    if k == "take":
        inner, n = x.a
        if n == 0:
            return None, x
        v, inner2 = it_next_ext(it, inner)
        if v is None:
            return None, x
        return v, It("take", inner2, n - 1)
    if k == "skip":
        inner, n = x.a
        while n:
            v, inner = it_next_ext(it, inner)
            n -= 1
            if v is None:
                return None, It("skip", inner, 0)
        v, inner2 = it_next_ext(it, inner)
        return v, It("skip", inner2, 0)
    if k == "chain":
        a, b = x.a
        if a is not None:
            v, a2 = it_next_ext(it, a)
            if v is not None:
                return v, It("chain", a2, b)
            a = None
        v, b2 = it_next_ext(it, b)
        return v, It("chain", None, b2)
    if k == "step_by":
        inner, step, first = x.a
        if not first:
            for _ in range(step - 1):
                v, inner = it_next_ext(it, inner)
                if v is None:
                    return None, It("step_by", inner, step, False)
        v, inner2 = it_next_ext(it, inner)
        return v, It("step_by", inner2, step, False)
    if k in ("zip", "enumerate", "rev"):
        # adaptors over possibly extended iterators
        if k == "zip":
            ia, ib = x.a
            va, ia2 = it_next_ext(it, ia)
            if va is None:
                return None, x
            vb, ib2 = it_next_ext(it, ib)
            if vb is None:
                return None, It("zip", ia2, ib)
            return Agg([va, vb]), It("zip", ia2, ib2)
        if k == "enumerate":
            inner, n = x.a
            v, inner2 = it_next_ext(it, inner)
            if v is None:
                return None, x
            return Agg([bv.const(n, 64), v]), It("enumerate", inner2, n + 1)
    return it_next(it, x)


_old_it_next = it_next


def _patched_it_next(it, x):
    if x.k in ("map", "cloned", "copied", "take", "skip", "chain", "step_by", "zip", "enumerate"):
        return it_next_ext(it, x)
    return _old_it_next(it, x)


it_next = _patched_it_next


def _iter_method(it, key, a, ce):
    """Iterator::<method> on a modelled iterator (any adaptor type): dispatch on the method name."""
    m = re.search(r">::(\w+)(?:::<.*)?$", key) or re.search(r"::(\w+)(?:::<.*)?$", key)
    name = m.group(1)
    ga = ce.get("generic_args", [])
    selfty = ga[0]["ty"] if ga and "ty" in ga[0] else None
    x, ref = _it_of(it, a[0], selfty)

    def writeback(x2):
        if ref is not None:
            _store_any(it, ref, x2)

    if name == "next":
        v, x2 = it_next(it, x)
        writeback(x2)
        return NONE() if v is None else SOME(v)
    if name in ("fold",):
        acc, f = a[1], a[2]
        fty = ga[-1]["ty"]
        while True:
            v, x = it_next(it, x)
            if v is None:
                writeback(x)
                return acc
            acc = _call_fn(it, f, [acc, v], fty)
    if name == "for_each":
        f = a[1]
        fty = ga[-1]["ty"]
        while True:
            v, x = it_next(it, x)
            if v is None:
                writeback(x)
                return Agg(())
            _call_fn(it, f, [v], fty)
    if name == "map":
        return It("map", x, a[1], ga[-1]["ty"])
    if name in ("cloned", "copied"):
        return It(name, x)
    if name == "rev":
        return It("rev", x)
    if name == "enumerate":
        return It("enumerate", x, 0)
    if name == "zip":
        return It("zip", x, to_iter(it, a[1], ga[1]["ty"]))
    if name == "chain":
        return It("chain", x, to_iter(it, a[1], ga[1]["ty"]))
    if name == "take":
        return It("take", x, cint(a[1], "take count"))
    if name == "skip":
        return It("skip", x, cint(a[1], "skip count"))
    if name == "step_by":
        return It("step_by", x, cint(a[1], "step"), True)
    if name == "by_ref":
        return a[0]
    if name in ("count",):
        n = 0
        while True:
            v, x = it_next(it, x)
            if v is None:
                return bv.const(n, 64)
            n += 1
    if name == "last":
        last = None
        while True:
            v, x = it_next(it, x)
            if v is None:
                return NONE() if last is None else SOME(last)
            last = v
    if name == "nth":
        n = cint(a[1], "nth")
        v = None
        for _ in range(n + 1):
            v, x = it_next(it, x)
            if v is None:
                break
        writeback(x)
        return NONE() if v is None else SOME(v)
    if name in ("all", "any"):
        f = a[1]
        fty = ga[-1]["ty"]
        while True:
            v, x = it_next(it, x)
            if v is None:
                writeback(x)
                return (ONE if name == "all" else ZERO,)
            r = _call_fn(it, f, [v], fty)
            c = bv.const_value(r)
            if c is None:
                raise Undecided("Iterator::%s with a non-constant predicate" % name)
            if (name == "all" and not c) or (name == "any" and c):
                writeback(x)
                return (ZERO if name == "all" else ONE,)
    if name == "sum":
        t = it.dest_ty
        acc = bv.const(0, it.ty.size_bits(t))
        while True:
            v, x = it_next(it, x)
            if v is None:
                return acc
            if isinstance(v, Ptr):
                v = _deref_any(it, v)
            acc = bv.add(acc, v)
    if name in ("size_hint", "len"):
        raise Undecided("Iterator::%s" % name)
    raise Undecided("iterator method %s on a modelled iterator" % name)


@model("<A as core::slice::cmp::SlicePartialEq<B>>::equal_same_length")
def _slice_equal_same_length(it, key, a, ce):
    """Equality of two slices of equal length (memcmp for plain types): the conjunction of the bit equalities."""
    # signature: unsafe fn equal_same_length(lhs: *const A, rhs: *const B, len: usize) -> bool
    n = cint(a[2], "slice length")
    t = ce["generic_args"][0]["ty"]
    nbits = n * it.ty.size_bits(t)
    if nbits == 0:
        return (ONE,)
    x = it.region_read(a[0], nbits)
    y = it.region_read(a[1], nbits)
    return (bv.cmp_bit("eq", x, y),)


@model("core::array::<impl [T; N]>::map")
def _array_map(it, key, a, ce):
    ga = ce["generic_args"]
    arr_t = it.ins[key]["body"]["locals"][1] if key in it.ins and it.ins[key].get("body") else None
    v = a[0]
    if not isinstance(v, Agg):
        if arr_t is None:
            raise Undecided("array::map on an unstructured array")
        v = it.as_agg(v, arr_t)
    return Agg([_call_fn(it, a[1], [x], ga[2]["ty"]) for x in v.f])


@model("core::array::from_fn")
def _array_from_fn(it, key, a, ce):
    ga = ce["generic_args"]
    n = int(ga[1]["int"])
    return Agg([_call_fn(it, a[0], [bv.const(i, 64)], ga[2]["ty"]) for i in range(n)])


@model("core::array::iter::<impl core::iter::traits::collect::IntoIterator for [T; N]>::into_iter")
def _array_into_iter(it, key, a, ce):
    return It("vals", tuple(a[0].f), 0)


for _p in ("<core::iter::adapters::", "<core::slice::iter::", "<core::array::iter::", "core::iter::traits::iterator::Iterator::",
           "core::iter::traits::double_ended::DoubleEndedIterator::", "<&mut I as core::iter::traits::iterator::Iterator>::"):
    PREFIX.append((_p, _iter_method))
