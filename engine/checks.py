"""Per-property checks (DESIGN.md section 3).  Each returns the process exit code."""
import json
import os
import sys
import traceback

from . import facts
from .report import Report

VERIF = facts.VERIF
CHECKS = {}
TV = "translation_validation"


def check(pid):
    def deco(f):
        CHECKS[pid] = f
        return f
    return deco


def main(argv):
    if not argv:
        print("usage: vcheck <property id> [--tier quick|thorough] [--replay file]")
        return 2
    pid = argv[0]
    tier = os.environ.get("VERIF_TIER", "quick")
    replay = None
    i = 1
    while i < len(argv):
        if argv[i] == "--tier":
            tier = argv[i + 1]
            i += 2
        elif argv[i] == "--replay":
            replay = argv[i + 1]
            i += 2
        else:
            i += 1
    if tier not in ("quick", "thorough"):
        tier = "quick"
    seed = int(os.environ.get("VERIF_SEED", "0") or 0)
    if pid == "selftest":
        from . import selftest
        return selftest.main(tier)
    f = CHECKS.get(pid)
    if f is None:
        print("no check registered for %s" % pid)
        return 2
    if replay:
        try:
            print(open(replay).read())
        except OSError as e:
            print("cannot read replay file: %s" % e)
        print("--- re-deciding %s ---" % pid)
    try:
        return f(tier, seed)
    except facts.ExtractionFailed as e:
        # a configuration the check needs does not build: inconclusive, fail closed
        r = Report(pid, tier, "other", seed)
        r.undecide("E0", "extraction", str(e)[:1500])
        return r.finish("fact extraction failed; nothing was analysed")
    except (Exception, MemoryError):
        traceback.print_exc()
        r = Report(pid, tier, "other", seed)
        r.undecide("engine", "internal-error", traceback.format_exc()[-1500:])
        return r.finish("internal error of the checker; nothing is certified")


# ---------------------------------------------------------------------------------------------
from . import check_vocab


def _vocab(pid, tier, seed, floor_entries, what):
    r = Report(pid, tier, "translation_validation", seed)
    n = check_vocab.run(r, pid, ["K1", "K2"])
    r.floor("vocabulary entries", n, floor_entries)
    if pid == "C13":
        ns = check_vocab.storage_conversions(r, "K1") + check_vocab.storage_conversions(r, "K2")
        r.floor("storage conversions (From / new128 / split128 / Default)", ns, 20)
    r.assumptions = [
        "models of the x86 intrinsics in engine/models.py follow the Intel definitions",
        "rustc MIR construction and trait resolution",
        "normalisation laws of engine/bv.py (DESIGN.md 2.3)",
    ]
    return r.finish(
        "Every method of every trait in the supertrait closure of every Machine associated type "
        "(found by trait elaboration in E0, configs K1: four distinct x86 machines, K2: GenericMachine) "
        "is turned into a bit-level value graph over symbolic operands by abstract interpretation of its "
        "monomorphic MIR and compared for identity of normal forms with the scalar definition in "
        "spec/vocab.py (%s). Selector arguments (lane index) are split over their whole domain. "
        "A reachable panic for in-domain operands is a violation." % what,
        trusted_base=["engine/models.py intrinsic models", "engine/bv.py laws", "rustc front end"],
        coverage_extra={"exhaustive": True})


@check("C12")
def c12(tier, seed):
    return _vocab("C12", tier, seed, 1005, "wrapping add, xor/and/or/not/andnot, rotate, shuffle, swap, bswap")


@check("C13")
def c13(tier, seed):
    return _vocab("C13", tier, seed, 500, "lanes, storage, insert/extract, transpose4, to_scalars, byte loads/stores")


from . import check_ppvnull


@check("C19")
def c19(tier, seed):
    r = Report("C19", tier, "translation_validation", seed)
    n = check_ppvnull.run(r)
    r.floor("public methods of the five ppv-null types", n, 76)
    r.assumptions = ["normalisation laws of engine/bv.py", "rustc MIR construction (dev profile: overflow checks are Assert terminators)"]
    return r.finish(
        "Every public method of u32x4, u64x4, u128x1, u128x2, u32x4x4 (the crate's non-generic public roots found by E0) "
        "is evaluated to a value graph over symbolic lanes and compared with the lane-wise scalar definition; rotation "
        "amounts and lane indices are split over their whole documented domain (1..bits-1, valid indices). "
        "R19.2: an Assert terminator (overflow/bounds, dev profile) whose condition does not fold to a constant, or a "
        "reachable panic call, is a violation.",
        trusted_base=["engine/bv.py laws", "engine/models.py core models", "rustc front end"],
        coverage_extra={"exhaustive": True})


from . import check_threefish


@check("C09")
def c09(tier, seed):
    r = Report("C09", tier, TV, seed)
    for cfg in ("K1", "K4"):
        check_threefish.c09(r, cfg)
    r.floor("cipher x config instances", len(r.holds) + len(r.violations), 12)
    ns = check_threefish.c10_slices(r, "K1")
    r.floor("slice / par-block trait methods compared with the single-block methods", ns, 12)
    r.assumptions = ["spec/threefish.py transcribes Skein 1.3 (validated against the NIST vectors by spec/selftest.py)",
                     "normalisation laws of engine/bv.py", "core slice/iterator models"]
    return r.finish(
        "with_tweak followed by encrypt_block, for symbolic key bytes, tweak words and block bytes, is evaluated to a "
        "value graph (all loops have compile-time bounds) and must be identical, output bit by output bit, to the graph "
        "of the Skein 1.3 definition (key schedule with C240 and tweak words, 72/72/80 MIX rounds with the published "
        "rotation constants, word permutation, subkey injection every four rounds, little-endian words). Done for the "
        "default build (K1, unrolled) and the no_unroll feature (K4); both equal the specification, hence each other. "
        "R9.2 new(key) builds the schedule of with_tweak(key, 0, 0). R10.2 the slice and par-block trait methods act block "
        "by block exactly as encrypt_block / decrypt_block.",
        trusted_base=["spec/threefish.py", "engine/bv.py laws", "engine/models.py"], coverage_extra={"exhaustive": True})


@check("C10")
def c10(tier, seed):
    r = Report("C10", tier, TV, seed)
    for cfg in ("K1", "K4"):
        check_threefish.c10(r, cfg)
    r.floor("size x order x config instances", len(r.holds) + len(r.violations), 12)
    ns = check_threefish.c10_slices(r, "K1")
    r.floor("slice / par-block trait methods compared with the single-block methods", ns, 12)
    r.assumptions = ["normalisation laws of engine/bv.py (x+k-k = x, x^y^y = x, rotr(rotl(x,r),r) = x)"]
    return r.finish(
        "decrypt_block(encrypt_block(b)) and encrypt_block(decrypt_block(b)) are evaluated with the whole subkey array "
        "and the block as free symbols; the result must normalise to the original block bits. 3 sizes x 2 orders x "
        "{unrolled, no_unroll}. R10.2: the slice and par-block methods of BlockEncrypt / BlockDecrypt (encrypt_blocks, "
        "decrypt_blocks, encrypt_par_blocks, decrypt_par_blocks), interpreted from whatever code provides them (the "
        "trait's provided methods or an override), act on each block exactly as the single-block methods, so the inverse "
        "relation holds through every way the traits run the cipher.", trusted_base=["engine/bv.py laws", "engine/models.py"], coverage_extra={"exhaustive": True})


from . import check_chacha


@check("C14")
def c14(tier, seed):
    r = Report("C14", tier, TV, seed)
    if tier == "thorough":
        plan = [("K1", list(range(0, 11))), ("K2", list(range(0, 11)))]
    else:
        plan = [("K1", [0, 1, 4, 10]), ("K2", [0, 10])]
    n = 0
    for cfg, drs in plan:
        check_chacha.c14(r, cfg, drs)
        n += 3 * len(drs)
    r.floor("(function, drounds, config) instances", len(r.holds) + len(r.violations), n)
    r.assumptions = ["spec/chacha.py transcribes the ChaCha block function (validated against RFC 7539 vectors in setup)",
                     "intrinsic models, normalisation laws", "little-endian target (the cfg(target_endian=big) twins of add_pos/d0123 are not compiled here and are NOT analysed)"]
    r.note("big-endian variants of add_pos and d0123 are cfg'd out on this target: not analysed, not counted as passed")
    return r.finish(
        "ChaCha::refill4 and ChaCha::refill are evaluated through their run-time dispatch (every arm is followed; "
        "CPU-feature detection results are free boolean symbols and the arms are joined with if-then-else, which only "
        "collapses when all arms give the same graph) on a symbolic state for each listed number of double rounds. "
        "R14.1: the 256 output bytes equal four ChaCha blocks at counter+0..3 (64-bit counter addition, stream-id words "
        "untouched) and the state becomes counter+4. R14.2: refill emits the block at the counter and leaves counter+1. "
        "R14.3: four refills and one refill4 from the same state give identical bytes and identical final states. "
        "Any overflow/bounds Assert depending on operand values is a violation. K1 = x86 (AVX2/AVX/SSE4.1/SSSE3/SSE2 arms), "
        "K2 = portable backend.", trusted_base=["spec/chacha.py", "engine/models.py", "engine/bv.py"],
        coverage_extra={"exhaustive": tier == "thorough"})


@check("C15")
def c15(tier, seed):
    r = Report("C15", tier, TV, seed)
    for cfg in ("K1", "K2"):
        check_chacha.c15(r, cfg)
    r.floor("rule instances", len(r.holds) + len(r.violations), 8)
    return r.finish(
        "set_stream_param / get_stream_param on a symbolic state for param 0 and 1: the state after set differs from "
        "the state before exactly in d words (2p, 2p+1) = value, get returns those words, the other parameter and the "
        "key rows are untouched (hence the following output equals that of a state created with those values, the "
        "output being a function of the state). stream32_eq / stream64_eq on two symbolic states must be exactly the "
        "conjunction of bit equalities of b, c and d words {1,2,3} resp. {2,3} (conjunctions are canonical n-ary sets, so "
        "operand order and word grouping do not matter). K1 and K2.",
        trusted_base=["engine/bv.py", "engine/models.py"], coverage_extra={"exhaustive": True})


@check("C01")
def c01(tier, seed):
    r = Report("C01", tier, TV, seed)
    check_chacha.c01_new(r, "K1")
    check_chacha.c14(r, "K1", [4, 6, 10])      # the block function at the three declared round counts
    if tier == "thorough":
        check_chacha.c01_new(r, "K2")
        check_chacha.c01_stream(r, "K1", [0, 1, 63, 64, 65, 255, 256, 257, 321, 600, 1024, 2309])
        check_chacha.c01_stream(r, "K2", [1, 65, 321])
    else:
        check_chacha.c01_stream(r, "K1", [1, 65, 321])
        check_chacha.c01_stream(r, "K1", [2309], only=("ChaCha12",))      # nine wide chunks + tail
    r.floor("rule instances", len(r.holds) + len(r.violations), 24)
    r.assumptions = ["spec/chacha.py (block function, HChaCha) validated against RFC 7539 / XChaCha vectors",
                     "which keystream byte meets which data byte over arbitrary call histories is C02's subject; here only single requests from a fresh cipher are covered"]
    return r.finish(
        "R1.4: NewCipher::new of each of the 7 aliases on symbolic key and nonce yields state rows (key words LE, "
        "counter 0, nonce words; for XChaCha the HChaCha subkey with the alias's round count and nonce tail) and buffer "
        "bookkeeping as specified. R14.x at drounds 4/6/10: the block function. R1.5: try_apply_keystream of a fresh "
        "cipher on symbolic data of each listed length yields exactly data ^ keystream (block i = block function at "
        "counter i with the alias's rounds, little-endian), which also fixes the round count each alias passes down and "
        "that nothing but XOR touches the data.", trusted_base=["spec/chacha.py", "engine/models.py", "engine/bv.py"])


from . import check_lattice


@check("C20")
def c20(tier, seed):
    r = Report("C20", tier, "other", seed)
    n = check_lattice.run(r, tier)
    r.floor("lattice points checked", n, 32 if tier == "quick" else 70)
    r.assumptions = ["'selects an implementation and never changes a result' is discharged by C03 (std / no-std / no_simd) and C09/C10 (no_unroll), which compare every alternative with one specification"]
    return r.finish(
        "R20.1: `cargo check --offline -p <crate> --no-default-features --features <subset>` on the stable toolchain for "
        "every subset (thorough) or for the empty set, every single feature and the full set (quick) of every crate's "
        "declared features, implicit optional-dependency features included; the exit status of the type checker is the "
        "verdict for that point. Sources are /repo's working tree; build output goes to a temporary directory.",
        trusted_base=["rustc/cargo stable"], coverage_extra={"exhaustive": tier == "thorough"})


from . import check_static


@check("C18")
def c18(tier, seed):
    r = Report("C18", tier, "other", seed)
    n = check_static.c18(r, tier)
    r.floor("statics inventoried", n, 12)
    r.assumptions = ["std::sync::Once (lazy_static) and std_detect's feature cache perform one-time initialisation correctly",
                     "Rust's &mut exclusivity: safe code cannot alias another instance's state",
                     "raw-pointer stores are audited under C16"]
    return r.finish(
        "R18.1: inventory of every static item of every workspace crate (from the compiler's item table): each must be "
        "immutable data without interior mutability, or a lazy_static function-pointer cell whose initialiser (found "
        "through the Deref impl) calls nothing but CPU-feature detection and takes function items as values; static mut, "
        "thread-locals and other interior mutability are violations. R18.2: every static referenced by workspace code "
        "reachable from the public API roots is in that inventory. R18.3: no manual Send/Sync impl. R18.4: a witness crate "
        "asserting Send + Sync for 26 public state types type-checks. With no shared mutable state and &mut exclusivity, "
        "interleavings of threads or instances cannot influence results. Positive controls in fixtures/controls must be "
        "recognised on every run.", trusted_base=["rustc item tables / type checker", "std::sync::Once", "std_detect"],
        coverage_extra={"exhaustive": True})


@check("C16")
def c16(tier, seed):
    r = Report("C16", tier, "other", seed)
    hits = []
    n = check_static.c16_structural(r, ["K1", "K2"], addr_hits=hits)
    r.floor("workspace instances audited", n, 1500)
    from . import check_bytes
    check_bytes.run(r, tier)
    check_bytes.extent_sweep(r)
    if hits:
        check_bytes.alignment_sweep(r, hits)
    else:
        r.ok("R16.4", "no address-inspecting call (align_to, align_offset, addr, pointer-to-integer cast) in workspace code")
    r.assumptions = ["safe Rust (and core, block-buffer, generic-array, zerocopy) never accesses memory outside a slice",
                     "a rustc nightly's MIR shows every raw-pointer dereference, transmute and union access"]
    return r.finish(
        "Audit of every unsafe memory operation in every monomorphic instance of workspace code reachable from the public "
        "API (x86 and portable builds): R16.1 no alignment-requiring load/store intrinsic and no typed dereference or "
        "ptr::read/write of a pointer whose def chain starts at less aligned (byte) data - only the unaligned forms are "
        "used; R16.3 unions and transmutes between byte and word views have equal sizes and no padding (layout facts); "
        "R16.4 no pointer-to-integer conversion or address inspection, so results cannot depend on addresses; "
        "R16.2 extent: the raw-pointer entry points (Groestl tf512/tf1024, JH f8, vector byte loads/stores) are evaluated "
        "by the value-graph engine on buffers of exactly the documented size, where any access outside the buffer is "
        "reported. Positive controls must be recognised on every run.",
        trusted_base=["rustc MIR", "layout facts", "engine/interp.py pointer model"], coverage_extra={"exhaustive": True})


from . import check_blake, par


class _range_fn:
    """picklable `positions` callable: the buffer positions lo..hi-1"""

    def __init__(self, lo, hi):
        self.lo, self.hi = lo, hi

    def __call__(self, bb):
        return range(self.lo, min(self.hi, bb))



from . import check_e2e


def _e2e_chunks(bb, tier):
    ch = check_e2e.chunkings(bb)
    return ch if tier == "thorough" else [ch[0], ch[3], ch[6], ch[7], ch[10]]


@check("C04")
def c04(tier, seed):
    r = Report("C04", tier, TV, seed)
    cfgs = ["K1", "K2"] if tier == "thorough" else ["K1"]
    for c in cfgs:
        facts.load(c)
    jobs = []
    for c in cfgs:
        jobs.append((check_blake.c04_compress, (c,)))
        jobs.append((check_blake.c04_default, (c,)))
        jobs.append((check_blake.c04_dispatch, (c,)))
        for name, variant in check_blake.VARIANTS.items():
            bb = check_blake.B.PARAMS[variant][2]
            for lo in range(0, bb, 16):
                jobs.append((check_blake.c04_finalize, (c, _range_fn(lo, lo + 16), name)))
    jobs.append((check_blake.c04_update, ("K1", "R4.7")))
    for name, variant in check_blake.VARIANTS.items():
        for ch in _e2e_chunks(check_blake.B.PARAMS[variant][2], tier):
            jobs.append((check_e2e.e2e_blake, ("K1", "R4.6", (name,), (ch,))))
    rets = par.run(r, jobs)
    r.floor("end-to-end digests (variant x chunking)", sum(x for (fn, _), x in zip(jobs, rets) if fn is check_e2e.e2e_blake and x), 20 if tier == "quick" else 48)
    n = sum(x for (fn, _), x in zip(jobs, rets) if fn is check_blake.c04_compress and x)
    nf = sum(x for (fn, _), x in zip(jobs, rets) if fn is check_blake.c04_finalize and x)
    r.floor("compression instances (word size x machine)", n, 8 if tier == "quick" else 10)
    r.floor("finalisation specialisations (variant x buffer position)", nf, 384 if tier == "quick" else 768)
    r.assumptions = ["spec/blake.py follows the BLAKE final-round document; constants recomputed from pi and square roots of primes; validated against the submission's test vectors",
                     "block-buffer 0.9 is analysed through its real MIR (no summary); core slice functions are modelled",
                     "message length below 2^64 (2^128) bits: the t.1 += 1 overflow check beyond that is outside the property's domain"]
    return r.finish(
        "R4.1: put_block<M> for every Machine instantiation (SSE2, SSSE3, SSE4.1/AVX, AVX2; portable in thorough) on a "
        "symbolic chaining value, block and counter equals the specified compression function (14/16 rounds, sigma, pi "
        "constants, rotations) bit for bit. R4.5: the same through the run-time dispatcher with all arms joined. "
        "R4.2: Default gives the specified IV, zero counter, empty buffer. R4.3/R4.4: finalize_into_dirty, with the "
        "compression function as an uninterpreted symbol on both sides, for EVERY buffer position 0..63 / 0..127 of all "
        "four variants on symbolic buffered bytes, chaining value and counter: the sequence of (block, counter) pairs fed "
        "to the compression function and the truncated big-endian output equal the specified padding (0x80, marker bit, "
        "64/128-bit length, one vs. two blocks, zero counter for padding-only blocks). R4.7 update feeds exactly the "
        "complete blocks with the double-word counter. R4.6 END TO END: Default -> update(chunk)* -> finalize_into_dirty "
        "through the real MIR without any hook (dispatch arms joined) on symbolic message bytes for lengths around 0..3 "
        "blocks in several chunkings, and after an in-place finalisation of the empty message followed by reset, equals the "
        "specified BLAKE hash. Overflow assertions are accepted only if they guard the format limit (decided by evaluating "
        "the assertion with the top bits of the high counter word clear, boundary values included).",
        trusted_base=["spec/blake.py", "engine/models.py", "engine/bv.py"], coverage_extra={"exhaustive": True})


from . import check_skein


@check("C05")
def c05(tier, seed):
    r = Report("C05", tier, TV, seed)
    f = facts.load("K1")
    jobs = [(check_skein.c05_process_block, ("K1",)), (check_skein.c05_default, ("K1",)), (check_skein.c05_update, ("K1",))]
    hs = check_skein.hasher_types(f)
    for t, name, nb, n in hs:
        for lo in range(0, nb + 1, 16):
            jobs.append((check_skein.c05_finalize, ("K1", (name, n), _range_fn(lo, lo + 16))))
    e2e_types = [(name, n) for t, name, nb, n in hs if tier == "thorough" or n == nb or n in (1, 33, 200)]
    for t, name, nb, n in hs:
        if (name, n) in e2e_types:
            for ch in _e2e_chunks(nb, tier):
                jobs.append((check_e2e.e2e_skein, ("K1", "R5.6", (ch,), ((name, n),))))
    rets = par.run(r, jobs)
    r.floor("end-to-end digests (instantiation x chunking)", sum(x for (fn, _), x in zip(jobs, rets) if fn is check_e2e.e2e_skein and x), 30 if tier == "quick" else 216)
    nf = sum(x for (fn, _), x in zip(jobs, rets) if fn is check_skein.c05_finalize and x)
    r.floor("hasher instantiations (state size x output size)", len(hs), 18)
    r.floor("finalisation specialisations", nf, 1266)
    r.assumptions = ["Threefish is an uninterpreted function on both sides here; C09 decides that the repository's Threefish equals Skein 1.3's",
                     "spec/skein.py validated against the Skein 1.3 golden KATs with the real Threefish reference",
                     "output sizes are type-level: the 18 instantiations named by the roots fixture (N = 1, 7, 16, 20, 28, 32, 33, 48, 64, 65, 96, 100, 128, 129, 200, 256 over the three state sizes) are covered; the code depends on N only through the config word 8N and the chunking of the output",
                     "block-buffer / block-padding are interpreted from their real MIR"]
    return r.finish(
        "R5.1 process_block on a symbolic state = (t0 += n; x = TF(x, t, block) ^ block; t1 &= !FIRST). R5.2 Default = UBI of "
        "the config block {SHA3, v1, 8N bits} with tweak (32, FIRST|FINAL|CFG), then message tweak (0, FIRST|MSG). R5.3 "
        "update on symbolic data for boundary (buffer position, length) pairs processes every block except the last "
        "non-empty one with the block size as byte count. R5.4 finalize_into_dirty for EVERY buffer position 0..=block "
        "size of every instantiation: FINAL flag, zero padding, byte count = position, then output block i = "
        "UBI(G, LE64(i), (8, FIRST|FINAL|OUT)) truncated to N bytes (multi-block and odd N included).",
        trusted_base=["spec/skein.py", "engine/models.py", "engine/bv.py"], coverage_extra={"exhaustive": True})


from . import check_groestl


@check("C07")
def c07(tier, seed):
    r = Report("C07", tier, TV, seed)
    facts.load("K1")
    jobs = [(check_groestl.c07_default, ("K1",)), (check_groestl.c07_update, ("K1",))]
    for arm in check_groestl.ARMS:
        jobs.append((check_groestl.c07_chain, ("K1", arm, 1)))
        jobs.append((check_groestl.c07_chain, ("K1", arm, 2)))
    for name, (bits, cols, inner) in check_groestl.HASHERS.items():
        for lo in range(0, 8 * cols, 16):
            jobs.append((check_groestl.c07_finalize, ("K1", name, _range_fn(lo, lo + 16))))
    for arm in (check_groestl.ARMS if tier == "thorough" else check_groestl.ARMS[:1]):
        for name, (bits, cols, inner) in check_groestl.HASHERS.items():
            for ch in _e2e_chunks(8 * cols, tier):
                jobs.append((check_e2e.e2e_groestl, ("K1", arm, "R7.7", (name,), (ch,))))
    rets = par.run(r, jobs)
    r.floor("end-to-end digests (variant x chunking x arm)", sum(x for (fn, _), x in zip(jobs, rets) if fn is check_e2e.e2e_groestl and x), 20 if tier == "quick" else 144)
    nf = sum(x for (fn, _), x in zip(jobs, rets) if fn is check_groestl.c07_finalize and x)
    r.floor("finalisation specialisations (variant x buffer position)", nf, 384)
    r.floor("compression chain instances", sum(1 for rule, _ in r.holds if rule == "R7.3") + sum(1 for v in r.violations if v["rule"] == "R7.3"), 12)
    r.assumptions = ["the AES S-box is an uninterpreted byte function on both sides (the same for AESENCLAST and for the specification's SubBytes); spec/groestl.py is validated against the submission KATs with the real S-box",
                     "models of the x86 intrinsics incl. AESENCLAST = ShiftRows, SubBytes, xor key",
                     "block count below 2^64"]
    return r.finish(
        "R7.3: the whole chain Compressor::new(h) -> input(m1)[-> input(m2)] -> finalize_dirty() on symbolic h and m for the "
        "512- and 1024-bit states, for each of the three dispatch arms (aes/ssse3/sse2 function sets), equals "
        "Omega(f(f(h,m1),m2)) of the specification (P/Q with AddRoundConstant, SubBytes, ShiftBytes, MixBytes, 10/14 rounds) "
        "on the digest half of the output - this covers every shuffle mask, round constant, the internal transposed layout "
        "and MixBytes' GF(2^8) arithmetic bit-exactly. R7.4: finalize_into_dirty of the four hashers for EVERY buffer "
        "position with the compressor as a black box: padding 0x80, zeros, 64-bit big-endian count = blocks so far + 1 or 2, "
        "and the digest = last 28/32/48/64 bytes. R7.5: Default hands the specified IV (output size in the last bytes) to the "
        "compressor. R7.6: update feeds exactly the complete blocks and counts them.",
        trusted_base=["spec/groestl.py", "engine/models.py", "engine/bv.py"], coverage_extra={"exhaustive": True})


from . import check_jh


@check("C06")
def c06(tier, seed):
    r = Report("C06", tier, TV, seed)
    cfgs = ["K1", "K2"] if tier == "thorough" else ["K1"]
    jobs = []
    for c in cfgs:
        f = facts.load(c)
        jobs += [(check_jh.c06_ss, (c,)), (check_jh.c06_l, (c,)), (check_jh.c06_default, (c,)), (check_jh.c06_update, (c,)),
                 (check_jh.c06_dispatch, (c,))]
        for m in check_jh.machines(f):
            jobs.append((check_jh.c06_f8, (c, m)))
        for name in check_jh.HASHERS:
            for lo in range(0, 64, 16):
                jobs.append((check_jh.c06_finalize, (c, name, _range_fn(lo, lo + 16))))
    for name in check_jh.HASHERS:
        for ch in _e2e_chunks(64, tier):
            jobs.append((check_e2e.e2e_jh, ("K1", "R6.8", (name,), (ch,))))
    rets = par.run(r, jobs)
    r.floor("end-to-end digests (variant x chunking)", sum(x for (fn, _), x in zip(jobs, rets) if fn is check_e2e.e2e_jh and x), 20 if tier == "quick" else 48)
    nf = sum(x for (fn, _), x in zip(jobs, rets) if fn is check_jh.c06_finalize and x)
    n8 = sum(x for (fn, _), x in zip(jobs, rets) if fn is check_jh.c06_f8 and x)
    r.floor("F8 instances (machines)", n8, 4 if tier == "quick" else 5)
    r.floor("finalisation specialisations", nf, 256 * len(cfgs))
    r.assumptions = ["spec/jh.py is the nibble-oriented definition of the JH specification (S-boxes, L, P8, grouping, R6-generated round constants, H(0) = F8(H(-1), 0)), validated against the JH KATs",
                     "in the whole-F8 comparison the S-box layer is an uninterpreted nibble function on both sides; R6.1 establishes by complete truth tables (256 columns x 32 rows per machine) that the repository's bit-sliced `ss` is exactly that function",
                     "message length below 2^61 bytes"]
    return r.finish(
        "R6.1 ss<M> = S0/S1 selected by the constant bit on every bit column (complete truth tables; support check). "
        "R6.2 l<M> = the MDS map L over GF(2^4). R6.3 f8_impl<M> on a symbolic 1024-bit state and 512-bit block, for every "
        "Machine, equals F8 of the specification computed nibble-wise (grouping, 42 rounds of S-layer, L, P8 with constants "
        "generated by R6 from sqrt(2), de-grouping) - which also pins all 42 bit-sliced round constants and the swap schedule. "
        "R6.6 the same through the run-time dispatcher. R6.5 the four initial values equal F8(H(-1), 0) computed by the "
        "reference model. R6.4 finalize_into_dirty for every buffer position: one block for aligned messages, two otherwise, "
        "0x80/zeros/big-endian bit length, digest = tail of the state. R6.7 update counts bytes and feeds complete blocks.",
        trusted_base=["spec/jh.py", "engine/models.py", "engine/bv.py"], coverage_extra={"exhaustive": True})


@check("C17")
def c17(tier, seed):
    r = Report("C17", tier, TV, seed)
    facts.load("K1")
    jobs = [(check_blake.c04_update, ("K1",)), (check_skein.c05_process_block, ("K1",)), (check_skein.c05_update, ("K1",)),
            (check_groestl.c07_update, ("K1",)), (check_jh.c06_update, ("K1",))]
    edge = _edge_positions() if tier == "quick" else _range_fn(0, 10 ** 9)      # thorough: every buffer position
    for name in check_blake.VARIANTS:
        jobs.append((check_blake.c04_finalize, ("K1", edge, name)))
    for name in check_groestl.HASHERS:
        jobs.append((check_groestl.c07_finalize, ("K1", name, edge)))
    for name in check_jh.HASHERS:
        jobs.append((check_jh.c06_finalize, ("K1", name, edge)))
    par.run(r, jobs)
    check_static.c17_structural(r)
    r.floor("counter rule instances", len(r.holds) + len(r.violations), 280 if tier == "quick" else 1200)
    r.assumptions = ["the per-block functions are uninterpreted here; C04-C07 decide them for symbolic counter inputs, so exact counters imply conforming digests of long messages",
                     "format limits: BLAKE t.1 overflow (2^64 / 2^128 bits), Skein 2^64 bytes, Groestl 2^64 blocks, JH 2^61 bytes are outside the domain"]
    return r.finish(
        "All counters are symbolic full-width words, so a result that holds here holds across every word boundary "
        "(2^8, 2^16, 2^32, 2^64). R17.1 BLAKE update: t advances by 8*blocksize per block as a double-word sum with carry "
        "into the high word, and finalisation encodes (t1:t0) + 8*position big-endian (boundary positions; all positions "
        "under C04). Skein: t0 += byte count (symbolic). Groestl: block_counter += 1 per compressed block and the final "
        "count = counter + 1 or 2 as a 64-bit big-endian value. JH: datalen += len and the length field = 8*datalen as a "
        "64-bit big-endian value. R17.2 no narrowing integer cast is applied to a slice length or a counter field anywhere "
        "in the hash crates (def-use taint over MIR; positive control). R17.3 the counter fields have 64-bit (pair-of-word) types.",
        trusted_base=["engine/bv.py", "engine/models.py", "rustc MIR"], coverage_extra={"exhaustive": False})


class _edge_positions:
    def __call__(self, bb):
        return sorted({0, 1, bb - 10, bb - 9, bb - 8, bb - 1} & set(range(bb)))


from . import check_hashapi


@check("C08")
def c08(tier, seed):
    r = Report("C08", tier, "other", seed)
    f = facts.load("K1")
    hs = check_hashapi.hashers(f)
    jobs = [(check_hashapi.c08_shape, ("K1",)), (check_hashapi.c08_clone_reset, ("K1",))]
    for t, fam, bb in hs:
        jobs.append((check_hashapi.c08_chunking, ("K1", t, tier == "thorough")))
    rets = par.run(r, jobs)
    nchunk = sum(x for (fn, _), x in zip(jobs, rets) if fn is check_hashapi.c08_chunking and x)
    r.floor("hasher types (12 + Skein instantiations)", len(hs), 30)
    r.floor("chunking compositions", nchunk, (108 if tier == "quick" else 405) * 30)
    ok, err = check_static.build_witness()
    if ok:
        r.ok("R8.4", "Clone + Default witnesses for the 15 hash types compile")
    else:
        r.violated("R8.4", "witness", "a hash type is no longer Clone + Default: %s" % err)
    r.assumptions = ["per-block functions are uninterpreted (decided under C04-C07)", "statics/shared state: C18",
                     "finalize_reset is digest's blanket `finalize_into_dirty; reset`"]
    return r.finish(
        "R8.1 recursive walk of the 19 instantiated hasher state types: only integers, arrays, SIMD registers, unions of "
        "those and PhantomData - no reference, raw pointer, Rc/Arc/Box/Vec, Cell or atomic - so a bitwise copy shares "
        "nothing. R8.2 (value graphs) clone(&s) returns s bit for bit and leaves s unchanged; reset(&mut s) leaves exactly "
        "Default::default() for a fully symbolic prior state. R8.3 update(update(s,a),b) and update(s,a++b) leave identical "
        "states (live buffer prefix, counters, chaining value) for symbolic contents, buffer positions {0,1,bs-1} and all "
        "pairs of lengths from {0,1,bs-1,bs,bs+1,2bs+3}: 108 compositions per type. Finalisation is a function of the state "
        "(C04-C07), so equal states give equal digests.", trusted_base=["engine/bv.py", "engine/models.py", "rustc type facts"])


from . import check_dispatch


def _c03_values(report, cfg):
    """Every dispatching algorithm entry through its dispatcher in one configuration."""
    check_chacha.c14(report, cfg, [10])
    check_blake.c04_dispatch(report, cfg)
    check_jh.c06_dispatch(report, cfg)
    return 1


@check("C03")
def c03(tier, seed):
    r = Report("C03", tier, "other", seed)
    cfgs = ["K1", "K2"] + (["K3-sse2", "K3-ssse3", "K3-sse41", "K3-avx", "K3-avx2"] if tier == "thorough" else [])
    for c in cfgs:
        facts.load(c)
    jobs = [(_c03_values, (c,)) for c in cfgs]
    jobs.append((check_dispatch.c03_arms, ("K1",)))
    jobs.append((check_dispatch.c03_instance_callers, ("K1",)))
    rets = par.run(r, jobs)
    nsites, narms = rets[len(cfgs)]
    # vacuity guards only (ChaCha wide/narrow, BLAKE-256/512, JH at the very least); that no site is
    # overlooked is rule R3.6, which compares the sites with the multi-backend bodies of the instance graph
    r.floor("run-time dispatch sites (ppv-lite86 macros)", nsites, 5)
    r.floor("run-time dispatch arms", narms, 15)
    r.floor("configurations", len(cfgs), 2 if tier == "quick" else 7)
    if tier == "thorough":
        ok, err = check_static.build_witness(doc=True)
        if ok:
            r.ok("R3.2", "compile_fail witness: safe code cannot call Machine::instance (E0133), compiling twin passes")
        else:
            r.violated("R3.2", "witness:instance-unsafe", "Machine::instance became callable from safe code or the witness no longer builds: %s" % err)
    r.assumptions = ["C12/C13 decide every vocabulary operation per backend; here whole algorithms are compared through their dispatchers",
                     "CPU-feature detection results are free boolean symbols: an if-then-else over them collapses only if every arm yields the same value graph",
                     "Groestl's own dispatcher is outside this property (ppv-lite86 backends); noted in DESIGN.md"]
    return r.finish(
        "Value level: in each build configuration (K1 std run-time dispatch with all arms joined; K2 no_simd portable; thorough: "
        "five no-std builds with compile-time target features sse2/ssse3/sse4.1/avx/avx2) ChaCha refill/refill4, the BLAKE-256/512 "
        "compression dispatcher and JH f8 are evaluated through their dispatchers on symbolic inputs and must equal the one "
        "reference definition - hence each other - with no operand-dependent panic in any arm. Structure: R3.3 for each of the 41 "
        "run-time arms, target features required by everything reachable from the arm are enabled by the arm, and the arm's "
        "features are implied by the detection that dominates its call (rustc's implication table); R3.2 all arms of a site call "
        "one fn_impl body and forward their parameters positionally; Machine::instance() is called from arms only (and needs "
        "unsafe: compile_fail witness in the thorough tier).",
        trusted_base=["engine/models.py", "engine/bv.py", "spec/*.py", "rustc target-feature facts"])


@check("C02")
def c02(tier, seed):
    r = Report("C02", tier, "other", seed)
    facts.load("K1")
    names = ["ChaCha20", "Ietf"] if tier == "quick" else ["ChaCha20", "Ietf", "XChaCha8", "ChaCha12"]
    nchunks = 8 if tier == "quick" else 16
    jobs = [(check_chacha.c02_seek_types, ("K1",))]
    for nm in names:
        for i in range(nchunks):
            jobs.append((check_chacha.c02_histories, ("K1", nm, tier, "R2.3", (i, nchunks))))
    rets = par.run(r, jobs)
    nh = sum(x for x in rets[1:] if x)
    r.floor("histories evaluated", nh, 1000 if tier == "quick" else 20000)
    r.floor("seek type/value instances", rets[0] or 0, 150)
    r.assumptions = ["ChaCha::refill / refill4 are replaced by their C14 semantics (block at the 64-bit counter as an uninterpreted function of the state rows, counter + 1 / + 4); C14 decides that the real functions are exactly that",
                     "histories are a finite family (see coverage.rule); each covers all keys, nonces and data contents",
                     "MIR is the dev-profile MIR: overflow checks are Assert terminators, so debug-only panics are included"]
    return r.finish(
        "NOT a proof over all call histories (that needs an inductive invariant and is declined as outside static analysis). "
        "What is decided: for every history in a finite family - seek to positions around 0, mid-block, block edges, the 2^32-block "
        "carry of the low counter word, the end of the 32-bit keystream and the top of the u64 range, followed by one or two "
        "requests of boundary lengths (0,1,63,64,65,256,321,...), re-seeks backwards/forwards/to the same place, requests after a "
        "failed request - the value graph of every processed byte equals data ^ keystream[absolute position] for symbolic key, "
        "nonce and data; try_current_pos equals the absolute position after every step; key rows and nonce words never change; "
        "no Assert or panic call is reachable on these paths (dev profile). R2.2: try_seek::<T> for all seven SeekNum types and "
        "boundary values succeeds exactly for in-range positions and otherwise returns LoopError.",
        trusted_base=["engine/interp.py + models (Buffer logic is interpreted from its real MIR)", "C14 for the block function"],
        coverage_extra={"rule": "histories = {seek p; apply n1; [apply n2]} for p in boundary positions x lengths, plus re-seek and end-of-stream families; distinct = distinct operation sequences",
                        "evaluations": nh, "distinct_nontrivial": nh})


@check("C11")
def c11(tier, seed):
    r = Report("C11", tier, "other", seed)
    facts.load("K1")
    names = ["Ietf", "ChaCha20", "XChaCha20"] if tier == "quick" else ["Ietf", "ChaCha8", "ChaCha12", "ChaCha20", "XChaCha8", "XChaCha12", "XChaCha20"]
    jobs = [(check_chacha.c02_seek_types, ("K1", "R11.1"))]
    for nm in names:
        for i in range(4):
            jobs.append((check_chacha.c11_histories, ("K1", nm, (i, 4))))
    rets = par.run(r, jobs)
    nh = sum(x for x in rets[1:] if x)
    r.floor("end-of-keystream histories", nh, 150)
    r.assumptions = ["refill / refill4 replaced by their C14 semantics", "finite family of histories around the limits; symbolic key, nonce and data"]
    return r.finish(
        "Decided on a finite family of histories around the end of the 32-bit-counter keystream (2^38 bytes), the 2^32-block carry "
        "and the top of the 64-bit range: a request crossing the end returns an error with the data graph unchanged, "
        "try_current_pos unchanged and later in-range requests correct (R11.2); a request or seek ending exactly at the limit "
        "succeeds; try_seek past the end returns LoopError for every SeekNum type (R11.1); the nonce / stream-id words of the "
        "state are never modified, in particular not by the counter's carry after the last block (R11.3); 64-bit variants "
        "succeed for every u64 position incl. requests running over 2^64 bytes, with positions not representable in u64 "
        "reported as OverflowError. Not decided: arbitrary histories (no inductive argument).",
        trusted_base=["engine/interp.py + models", "C14"],
        coverage_extra={"evaluations": nh, "distinct_nontrivial": nh})
