"""R16.2: extent of raw-pointer accesses, decided by E2's pointer model on exact-size buffers.
Each raw-pointer entry point is evaluated on a buffer of exactly the documented size: an access
outside it is reported by the pointer model.  As a control, the same entry point on a buffer one
byte shorter must be reported."""
import re

from . import bv, facts
from .interp import Interp, Undecided, Diverge, Agg, Ptr
from .models import M as MODELS
from .check_threefish import bytes_cell


def entry_points(f):
    eps = []
    for k in f.instances:
        m = re.match(r"^groestl_aesni::compressor::(aes|ssse3|sse2)::(tf512|tf1024)$", k)
        if m:
            eps.append((k, 64 if m.group(2) == "tf512" else 128, "groestl"))
        if re.match(r"^jh_x86_64::compressor::f8_impl::<", k):
            eps.append((k, 64, "jh"))
    return eps


def opaque(name):
    """Hook replacing a pure helper by an uninterpreted function of its arguments (R16.2 looks at
    memory accesses only; keeps JH's 42 bit-sliced rounds from growing the xor-sets)."""
    def h(it, key, args, callee):
        inst = it.ins[key]
        rty = inst["body"]["locals"][0]
        atys = inst["body"]["locals"][1:1 + inst["body"]["arg_count"]]
        flat = tuple(it.to_bits(a, t) for a, t in zip(args, atys))
        return it.from_bits(bv.ufn(name, flat, it.ty.size_bits(rty)), rty)
    return h


JH_HOOKS = {r"^jh_x86_64::compressor::ss::<": opaque("jh_ss"), r"^jh_x86_64::compressor::l::<": opaque("jh_l")}


def evaluate(f, key, kind, nbytes):
    """-> None if all accesses are inside the buffer, else a description"""
    bv.reset()
    it = Interp(f, MODELS, hooks=JH_HOOKS if kind == "jh" else None)
    inst = f.instances[key]
    atys = inst["body"]["locals"][1:1 + inst["body"]["arg_count"]]
    _, dcell = bytes_cell(it, "data", nbytes)
    data = Ptr(dcell, (), idx=0, meta=None, ety="u8")
    args = []
    for t in atys:
        d = it.ty.get(t)
        if d["kind"] == "rawptr":
            args.append(data)
        elif d["kind"] == "ref":
            pt = d["pointee"]
            cell = it.new_cell(it.from_bits(bv.inp("st", it.ty.size_bits(pt)), pt), "state")
            args.append(Ptr(cell, ()))
        else:
            args.append(it.from_bits(bv.inp("m", it.ty.size_bits(t)), t) if it.ty.size_bits(t) else Agg(()))
    try:
        it.call_instance(key, args)
    except Diverge as d:
        return "access outside the %d-byte buffer: %s" % (nbytes, d.site[0])
    return None


def run(report, tier):
    n = 0
    controls = 0
    for cfg in ("K1", "K2"):
        f = facts.load(cfg)
        for key, nbytes, kind in entry_points(f):
            ikey = "%s@%s" % (facts.short(key), cfg)
            try:
                bad = evaluate(f, key, kind, nbytes)
                if bad:
                    report.violated("R16.2", ikey, "%s with a %d-byte block: %s" % (facts.short(key), nbytes, bad))
                else:
                    report.ok("R16.2", ikey, sample={"entry": facts.short(key, 120), "buffer_bytes": nbytes, "config": cfg} if n < 3 else None)
                n += 1
                if evaluate(f, key, kind, nbytes - 1):
                    controls += 1
            except Undecided as e:
                report.undecide("R16.2", ikey, str(e))
    report.floor("raw-pointer entry points evaluated", n, 11)
    report.floor("positive control: short buffer reported", controls, n)
    report.extra["raw_pointer_entry_points"] = n
