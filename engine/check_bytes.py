"""R16.2: extent of raw-pointer accesses, decided by E2's pointer model on exact-size buffers.
Each raw-pointer entry point is evaluated on a buffer of exactly the documented size: an access
outside it is reported by the pointer model.  As a control, the same entry point on a buffer one
byte shorter must be reported."""
import re

from . import bv, facts
from .interp import Interp, Undecided, Diverge, Agg, Ptr
from .models import M as MODELS
from .check_threefish import bytes_cell


def entry_points(f):
    eps = []
    for k in f.instances:
        m = re.match(r"^groestl_aesni::compressor::(aes|ssse3|sse2)::(tf512|tf1024)$", k)
        if m:
            eps.append((k, 64 if m.group(2) == "tf512" else 128, "groestl"))
        if re.match(r"^jh_x86_64::compressor::f8_impl::<", k):
            eps.append((k, 64, "jh"))
    return eps


def opaque(name):
    """Hook replacing a pure helper by an uninterpreted function of its arguments (R16.2 looks at
    memory accesses only; keeps JH's 42 bit-sliced rounds from growing the xor-sets)."""
    def h(it, key, args, callee):
        inst = it.ins[key]
        rty = inst["body"]["locals"][0]
        atys = inst["body"]["locals"][1:1 + inst["body"]["arg_count"]]
        flat = []
        inplace = None
        for a, t in zip(args, atys):
            if t.startswith("&mut ") and isinstance(a, Ptr):
                pt = t[5:]
                flat.append(it.to_bits(it.deref_read(a, pt), pt))
                inplace = (a, pt)
            else:
                flat.append(it.to_bits(a, t))
        flat = tuple(flat)
        if inplace is not None:
            a, pt = inplace
            it.deref_write(a, pt, it.from_bits(bv.ufn(name, flat, it.ty.size_bits(pt)), pt))
            if rty == "()":
                return Agg(())
        return it.from_bits(bv.ufn(name, flat, it.ty.size_bits(rty)), rty)
    return h


JH_HOOKS = {r"^jh_x86_64::compressor::ss::<": opaque("jh_ss"), r"^jh_x86_64::compressor::l::<": opaque("jh_l")}


def evaluate(f, key, kind, nbytes):
    """-> None if all accesses are inside the buffer, else a description"""
    bv.reset()
    hooks = None
    if kind == "jh":
        from . import check_jh
        rs, rl = check_jh.layer_rx(f)
        hooks = {rs: opaque("jh_ss"), rl: opaque("jh_l")}
    it = Interp(f, MODELS, hooks=hooks)
    inst = f.instances[key]
    atys = inst["body"]["locals"][1:1 + inst["body"]["arg_count"]]
    _, dcell = bytes_cell(it, "data", nbytes)
    data = Ptr(dcell, (), idx=0, meta=None, ety="u8")
    args = []
    for t in atys:
        d = it.ty.get(t)
        if d["kind"] == "rawptr":
            args.append(data)
        elif d["kind"] == "ref":
            pt = d["pointee"]
            cell = it.new_cell(it.from_bits(bv.inp("st", it.ty.size_bits(pt)), pt), "state")
            args.append(Ptr(cell, ()))
        else:
            args.append(it.from_bits(bv.inp("m", it.ty.size_bits(t)), t) if it.ty.size_bits(t) else Agg(()))
    try:
        it.call_instance(key, args)
    except Diverge as d:
        return "access outside the %d-byte buffer: %s" % (nbytes, d.site[0])
    return None


def run(report, tier):
    n = 0
    controls = 0
    for cfg in ("K1", "K2"):
        f = facts.load(cfg)
        for key, nbytes, kind in entry_points(f):
            ikey = "%s@%s" % (facts.short(key), cfg)
            try:
                bad = evaluate(f, key, kind, nbytes)
                if bad:
                    report.violated("R16.2", ikey, "%s with a %d-byte block: %s" % (facts.short(key), nbytes, bad))
                else:
                    report.ok("R16.2", ikey, sample={"entry": facts.short(key, 120), "buffer_bytes": nbytes, "config": cfg} if n < 3 else None)
                n += 1
                if evaluate(f, key, kind, nbytes - 1):
                    controls += 1
            except Undecided as e:
                report.undecide("R16.2", ikey, str(e))
    report.floor("raw-pointer entry points evaluated", n, 11)
    report.floor("positive control: short buffer reported", controls, n)
    report.extra["raw_pointer_entry_points"] = n


# ------------------------------------------------------------------ alignment sweep (R16.4 discharge)

def sweep_chacha(f, align):
    """Value graphs of try_apply_keystream on symbolic data for one assumed buffer alignment."""
    from . import check_chacha
    from .report import Report
    outs = []
    for name in ("ChaCha20", "Ietf"):
        for n in (300, 777):
            bv.reset()
            it = Interp(f, MODELS)
            it.align_case = align
            r = Report("C16", "quick", "other")
            ok = check_chacha.run_history(it, f, name, [("apply", n)], r, "R16.4", "%s len=%d align=%d" % (name, n, align))
            outs.append((name, n, ok, r.violations[:1]))
    return outs


def alignment_sweep(report, hits):
    """Address-inspecting APIs were found (hits).  Decide alignment independence by evaluating the
    byte-slice entry points under every assumed buffer alignment 0..31: results must equal the
    specification for each."""
    by_crate = sorted({h[2] for h in hits})
    f = facts.load("K1")
    decided = True
    for crate in by_crate:
        if crate not in ("c2_chacha",):
            for h in hits:
                if h[2] == crate:
                    report.undecide("R16.4", "%s@%s" % (h[3], h[0]), "address inspection outside the swept entry points: " + h[4])
            decided = False
    if "c2_chacha" in by_crate:
        bad = None
        for a in range(32):
            try:
                for name, n, ok, viol in sweep_chacha(f, a):
                    if not ok:
                        bad = (a, name, n, viol)
                        break
            except Undecided as e:
                report.undecide("R16.4", "alignment sweep c2_chacha align=%d" % a, str(e))
                decided = False
                bad = "undecided"
                break
            if bad:
                break
        for h in hits:
            if h[2] != "c2_chacha":
                continue
            if bad is None:
                report.ok("R16.4", "%s@%s: address inspection, results identical to the specification for all 32 buffer alignments" % (h[3], h[0]))
            elif bad != "undecided":
                a, name, n, viol = bad
                report.violated("R16.4", "%s@%s" % (h[3], h[0]),
                                "%s; with the data buffer at address = %d (mod 32) a %d-byte %s request no longer equals data ^ keystream: %s"
                                % (h[4], a, n, name, (viol[0]["what"] if viol else "")[:200]))
    return decided


# ------------------------------------------------------------------ extent sweeps over request lengths (R16.2)

def extent_sweep(report):
    """Every byte-slice API evaluated by the pointer model for a dense range of lengths: an access
    outside the caller's slice is reported (the data cell is exactly as long as the slice)."""
    from . import check_chacha, check_hashapi
    f = facts.load("K1")
    n = 0
    bad = {}
    lengths = list(range(0, 81)) + list(range(250, 266)) + list(range(318, 331)) + [512, 777]
    for name in ("ChaCha20", "Ietf"):
        for pre in (0, 3):
            for ln in lengths:
                ops = ([("apply", pre)] if pre else []) + [("apply", ln)]
                n += 1
                for site, msg in check_chacha.run_history_modular(f, name, ops):
                    if "memory" in msg or "out-of-bounds" in msg or "exceeds" in msg:
                        bad.setdefault("c2_chacha apply_keystream", msg)
    for t, fam, bb in check_hashapi.hashers(f):
        if "<" in t and not t.endswith(("U32>", "U64>", "U128>")):
            continue
        upd = [k for k in f.instances if k == "<%s as digest::Update>::update::<&[u8]>" % t]
        if not upd:
            continue
        for p in (0, 1):
            for ln in list(range(0, 20)) + list(range(bb - 9, bb + 10)) + [2 * bb, 2 * bb + 3]:
                n += 1
                try:
                    bv.reset()
                    it = Interp(f, MODELS, hooks=check_hashapi.hooks_for(fam, t, f))
                    cell = it.new_cell(check_hashapi.sym_hasher(it, t, p), "hasher")
                    _, dcell = bytes_cell(it, "data", ln)
                    it.call_instance(upd[0], [Ptr(cell, ()), Ptr(dcell, (), idx=0, meta=ln, ety="u8")])
                except Diverge as d:
                    if "memory" in str(d.site) or "out-of-bounds" in str(d.site) or "exceeds" in str(d.site):
                        bad.setdefault("%s::update" % facts.abbrev(t), "update of %d bytes at buffer position %d: %s" % (ln, p, d.site[0]))
                except Undecided as e:
                    report.undecide("R16.2", "%s::update len=%d" % (facts.abbrev(t), ln), str(e))
    # block cipher entry points on exact-size key and block objects
    from .check_threefish import SIZES, find
    for name, nw in SIZES.items():
        nb = nw * 8
        for what in ("new", "with_tweak+encrypt_block+decrypt_block"):
            n += 1
            try:
                bv.reset()
                it = Interp(f, MODELS)
                _, kcell = bytes_cell(it, "key", nb)
                if what == "new":
                    k = find(f, r"^<threefish_cipher::%s as cipher::block::NewBlockCipher>::new$" % name)
                    it.call_instance(k, [Ptr(kcell, ())])
                else:
                    wt = find(f, r"^threefish_cipher::%s::with_tweak$" % name)
                    fish = it.call_instance(wt, [Ptr(kcell, ()), bv.inp("t0", 64), bv.inp("t1", 64)])
                    fcell = it.new_cell(fish, "fish")
                    _, bcell = bytes_cell(it, "block", nb)
                    for tr, m in (("BlockEncrypt", "encrypt_block"), ("BlockDecrypt", "decrypt_block")):
                        k = find(f, r"^<threefish_cipher::%s as cipher::block::%s>::%s$" % (name, tr, m))
                        it.call_instance(k, [Ptr(fcell, ()), Ptr(bcell, ())])
            except Diverge as d:
                if "memory" in str(d.site) or "out-of-bounds" in str(d.site) or "exceeds" in str(d.site):
                    bad.setdefault("%s::%s" % (name, what), "%s on an exact-size key/block: %s" % (what, d.site[0]))
            except Undecided as e:
                report.undecide("R16.2", "%s::%s" % (name, what), str(e))
    for api, msg in bad.items():
        report.violated("R16.2", "extent:%s" % api, "%s accesses memory outside the caller's slice: %s" % (api, msg[:300]))
    if not bad:
        report.ok("R16.2", "length sweep: %d (API, length) evaluations stay inside their slices" % n,
                  sample={"apis": "c2_chacha try_apply_keystream; Update::update of 15 hashers; Threefish new/with_tweak/encrypt/decrypt", "evaluations": n})
    report.extra["extent_sweep_evaluations"] = n
    return n
