"""C19: every public method of ppv-null's five emulated vector types equals lane-wise wrapping
scalar arithmetic as a value graph, and has no reachable panic for in-domain operands
(rotation amounts 1..bits-1, valid lane indices, slices of the exact length)."""
import re

from . import bv, facts
from .interp import Interp, Undecided, Diverge, Agg, Ptr
from .models import M as MODELS
from spec import vocab as V

TYPES = {"u32x4": (32, 4), "u64x4": (64, 4), "u128x1": (128, 1), "u128x2": (128, 2), "u32x4x4": (32, 16)}


def words_of(it, v, t):
    """Words of a ppv-null vector value in field (declaration) order."""
    if isinstance(v, tuple):
        v = it.from_bits(v, t)
    d = it.ty.get(t)
    out = []
    for (off, ft), x in zip(it.ty.fields(t), v.f):
        if it.ty.kind(ft) == "int":
            out.append(x)
        else:
            out.extend(words_of(it, x, ft))
    return out


def mk(it, t, ws):
    """Build a ppv-null vector value of type t from a list of words."""
    ws = list(ws)

    def go(t):
        fs = []
        for off, ft in it.ty.fields(t):
            if it.ty.kind(ft) == "int":
                fs.append(ws.pop(0))
            else:
                fs.append(go(ft))
        return Agg(fs)
    return go(t)


def cases_for(it, key, inst, tyname, method):
    """yield (label, args, out_fn, expected words or value)"""
    w, n = TYPES[tyname]
    body = inst["body"]
    atys = body["locals"][1:1 + body["arg_count"]]
    rty = body["locals"][0]
    T = it.ty
    vt = None
    for t in [rty] + atys:
        tt = t
        if T.kind(tt) in ("ref", "rawptr"):
            tt = T.get(tt)["pointee"]
        if tt == tyname:
            vt = tt
    xs = [bv.inp("x%d" % i, w) for i in range(n)]
    ys = [bv.inp("y%d" % i, w) for i in range(n)]

    def ret_words(r):
        return words_of(it, r, rty)

    def selfref(ws):
        cell = it.new_cell(mk(it, tyname, ws), "self")
        return cell, Ptr(cell, ())

    def slice_of(ws, name):
        cell = it.new_cell(Agg(ws), name)
        return cell, Ptr(cell, (), idx=0, meta=len(ws), ety="u%d" % w)

    binops = {"add": bv.add, "bitxor": bv.xor, "bitand": bv.and_, "bitor": bv.or_,
              "andnot": lambda a, b: bv.and_(bv.not_(a), b)}
    if method in binops:
        f = binops[method]
        yield (method, [mk(it, tyname, xs), mk(it, tyname, ys)], ret_words, [f(a, b) for a, b in zip(xs, ys)])
    elif method in ("add_assign", "bitxor_assign"):
        f = binops[method[:-7]]
        cell, p = selfref(xs)
        yield (method, [p, mk(it, tyname, ys)], lambda r: words_of(it, cell.v, tyname), [f(a, b) for a, b in zip(xs, ys)])
    elif method == "not":
        yield (method, [mk(it, tyname, xs)], ret_words, [bv.not_(a) for a in xs])
    elif method == "clone":
        cell, p = selfref(xs)
        yield (method, [p], ret_words, xs)
    elif method == "new":
        yield (method, list(xs), ret_words, xs)
    elif method == "splat":
        if tyname == "u32x4x4":
            a = [bv.inp("a%d" % i, 32) for i in range(4)]
            yield (method, [mk(it, "u32x4", a)], ret_words, a * 4)
        else:
            yield (method, [xs[0]], ret_words, [xs[0]] * n)
    elif method == "from":
        yield (method, [Agg([mk(it, "u32x4", xs[4 * i:4 * i + 4]) for i in range(4)])], ret_words, xs)
    elif method == "into_parts":
        yield (method, [mk(it, tyname, xs)], lambda r: sum((words_of(it, p, "u32x4") for p in r.f), []), xs)
    elif method == "into_inner":
        yield (method, [mk(it, tyname, xs)], lambda r: [r], xs)
    elif method in ("load", "from_slice_unaligned"):
        cell, p = slice_of(xs, "input")
        yield (method, [p], ret_words, xs)
    elif method == "xor_store":
        cell, p = slice_of(ys, "out")
        yield (method, [mk(it, tyname, xs), p], lambda r: list(cell.v.f), [bv.xor(a, b) for a, b in zip(ys, xs)])
    elif method == "write_to_slice_unaligned":
        cell, p = slice_of(ys, "out")
        yield (method, [mk(it, tyname, xs), p], lambda r: list(cell.v.f), xs)
    elif method == "extract":
        ib = T.size_bits(atys[1])
        for i in range(n):
            yield ("extract(%d)" % i, [mk(it, tyname, xs), bv.const(i, ib)], lambda r: [r], [xs[i]])
    elif method == "replace":
        v = bv.inp("v", w)
        for i in range(n):
            exp = list(xs)
            exp[i] = v
            yield ("replace(%d)" % i, [mk(it, tyname, xs), bv.const(i, 64), v], ret_words, exp)
    elif re.fullmatch(r"swap(\d+)", method):
        g = int(method[4:])
        yield (method, [mk(it, tyname, xs)], ret_words, [V.swap_groups(a, g) for a in xs])
    elif method == "rotate_words_right":
        for i in range(4):
            exp = []
            for base in range(0, n, 4):
                grp = xs[base:base + 4]
                exp.extend(grp[(j - i) % 4] for j in range(4))
            yield ("rotate_words_right(%d)" % i, [mk(it, tyname, xs), bv.const(i, 32)], ret_words, exp)
    elif method == "splat_rotate_right":
        for i in range(1, w):
            yield ("splat_rotate_right(%d)" % i, [mk(it, tyname, xs), bv.const(i, 32)], ret_words,
                   [bv.rotr(a, i) for a in xs])
    elif method == "rotate_right":
        if tyname in ("u128x1", "u128x2"):
            for i in range(0, w):
                cell, p = selfref(xs)
                yield ("rotate_right(%d)" % i, [p, bv.const(i, w)],
                       lambda r, cell=cell: words_of(it, cell.v, tyname), [bv.rotr(a, i) for a in xs])
        else:
            # per-lane amounts: distinct in every case so that a lane mix-up cannot hide
            for k in range(w):
                amts = [(k + j * 7) % w for j in range(n)]
                cell, p = selfref(xs)
                yield ("rotate_right(%s)" % ",".join(map(str, amts)),
                       [p, mk(it, tyname, [bv.const(a, w) for a in amts])], ret_words,
                       [bv.rotr(a, s) for a, s in zip(xs, amts)])
    else:
        raise Undecided("no lane-wise definition for %s::%s" % (tyname, method))


def run(report):
    f = facts.load("K1", "ppv_null")
    n_methods = 0
    for r in f.roots:
        key = r["inst"]
        inst = f.instances[key]
        d = f.defs[inst["def"]]
        if d.get("vis") != "Public":
            continue
        m = re.match(r"<(\w+) as [\w:]+>::(\w+)$", key) or re.match(r"(\w+)::(\w+)$", key)
        if not m or m.group(1) not in TYPES:
            report.undecide("R19.1", key, "unrecognised public item")
            continue
        tyname, method = m.group(1), m.group(2)
        n_methods += 1
        bv.reset()
        it = Interp(f, MODELS)
        try:
            cases = list(cases_for(it, key, inst, tyname, method))
        except Undecided as e:
            report.undecide("R19.1", "ppv_null::" + key, str(e))
            continue
        first = True
        for label, args, outf, exp in cases:
            ikey = "ppv_null::%s:%s" % (key, label) if label != method else "ppv_null::" + key
            it.asserts = []
            it.panics = []
            try:
                r_ = it.call_instance(key, args)
                got = outf(r_)
            except Diverge as dv:
                report.violated("R19.2", ikey, "%s::%s panics for in-domain operands: %s" % (tyname, label, dv.site,))
                continue
            except Undecided as e:
                report.undecide("R19.1", ikey, str(e))
                continue
            bad = None
            # R19.2: debug-profile overflow assertions whose condition depends on the operands
            for a in it.asserts:
                bad = "%s::%s can panic in debug builds: %s assertion depends on operand values (%s)" % (
                    tyname, label, a["kind"], bv.show_bit(a["cond"]))
                report.violated("R19.2", ikey + ":" + a["kind"], bad)
            if it.panics:
                report.violated("R19.2", ikey, "%s::%s may panic: %s" % (tyname, label, it.panics[0]["site"]))
                continue
            if len(got) != len(exp):
                report.violated("R19.1", ikey, "%s::%s returns %d words, expected %d" % (tyname, label, len(got), len(exp)))
                continue
            mism = None
            for i, (g, e) in enumerate(zip(got, exp)):
                if g != e:
                    j = bv.first_diff(g, e)
                    mism = "word %d differs at bit %s: got %s expected %s" % (i, j, bv.show_bv(g), bv.show_bv(e))
                    break
            if mism:
                report.violated("R19.1", ikey, "%s::%s %s" % (tyname, label, mism))
            elif not bad:
                report.ok("R19.1", ikey, sample={"type": tyname, "method": label} if first else None)
                first = False
    report.extra["public_methods"] = n_methods
    return n_methods
