"""C12 / C13: every (machine, vector type, trait method) of the ppv-lite86 vocabulary, enumerated
by E0 through trait elaboration of the Machine bounds, equals its scalar meaning (spec/vocab.py)
as a normalised value graph; no reachable panic for in-domain selectors."""
import re
import sys
import time

from . import bv, facts
from .interp import Interp, Undecided, Diverge, Agg, Enum, Ptr, Cell
from .models import M as MODELS
from spec import vocab as V


def sym(it, t, name):
    return it.from_bits(bv.inp(name, it.ty.size_bits(t)), t)


def vec_elem_bits(it, trait):
    """Vec2<W>/Vec4<W>/Vec4Ext<W>: size of W."""
    m = re.search(r"ppv_lite86::types::Vec\d(?:Ext)?<(.*)>>?$", trait)
    w = m.group(1)
    # strip one trailing '>' belonging to the 'as Trait<..>' wrapper if unbalanced
    while w.count("<") < w.count(">"):
        w = w[:-1]
    return it.ty.size_bits(w)


class Case:
    def __init__(self, label, args, outputs, expected):
        self.label = label
        self.args = args            # python values passed to the instance
        self.outputs = outputs      # callable(ret) -> list of (name, flat bits)
        self.expected = expected    # list of (name, flat bits)


def build_cases(it, rec, inst):
    """Return list of Case for one vocabulary entry."""
    body = inst["body"]
    if body is None:
        raise Undecided("no body")
    nargs = body["arg_count"]
    atys = body["locals"][1:1 + nargs]
    rty = body["locals"][0]
    method = rec["method"]
    assoc = rec["assoc"]
    w, total = V.shape_of(assoc)
    T = it.ty

    def flat(v, t):
        return it.to_bits(v, t)

    def ret_flat(r):
        return [("ret", flat(r, rty))]

    def mkself(name="x"):
        bits = bv.inp(name, total)
        return bits

    x = bv.inp("x", total)
    y = bv.inp("y", total)
    cases = []

    def by_value(bits, t):
        return it.from_bits(bits, t)

    def mutref(bits, t):
        cell = it.new_cell(it.from_bits(bits, t), "self")
        return cell, Ptr(cell, ())

    def pointee(t):
        return T.get(t)["pointee"]

    m_rot = V.ROT_RE.match(method)
    m_shuf = V.SHUF_RE.match(method)
    m_swap = V.SWAP_RE.match(method)

    if method in ("add", "bitxor", "bitand", "bitor", "andnot"):
        exp = {"add": lambda: V.add(x, y, w), "bitxor": lambda: bv.xor(x, y), "bitand": lambda: bv.and_(x, y),
               "bitor": lambda: bv.or_(x, y), "andnot": lambda: bv.and_(bv.not_(x), y)}[method]()
        cases.append(Case(method, [by_value(x, atys[0]), by_value(y, atys[1])], ret_flat, [("ret", exp)]))
    elif method in ("add_assign", "bitxor_assign", "bitand_assign", "bitor_assign"):
        exp = {"add_assign": lambda: V.add(x, y, w), "bitxor_assign": lambda: bv.xor(x, y),
               "bitand_assign": lambda: bv.and_(x, y), "bitor_assign": lambda: bv.or_(x, y)}[method]()
        st = pointee(atys[0])
        cell, p = mutref(x, st)
        cases.append(Case(method, [p, by_value(y, atys[1])],
                          lambda r, cell=cell, st=st: [("*self", flat(cell.v, st))], [("*self", exp)]))
    elif method == "not":
        cases.append(Case(method, [by_value(x, atys[0])], ret_flat, [("ret", bv.not_(x))]))
    elif method == "bswap":
        cases.append(Case(method, [by_value(x, atys[0])], ret_flat, [("ret", V.bswap_each(x, w))]))
    elif m_rot:
        n = int(m_rot.group(1))
        cases.append(Case(method, [by_value(x, atys[0])], ret_flat, [("ret", V.rotr_each(x, w, n))]))
    elif m_shuf:
        digits = [int(g) for g in m_shuf.groups()]
        if "lane_words" in method:
            exp = V.shuffle_words(x, 32, digits, 128)
        else:
            exp = V.shuffle_words(x, w, digits, 4 * w)
        cases.append(Case(method, [by_value(x, atys[0])], ret_flat, [("ret", exp)]))
    elif m_swap:
        n = int(m_swap.group(1))
        cases.append(Case(method, [by_value(x, atys[0])], ret_flat, [("ret", V.swap_groups(x, n))]))
    elif method in ("to_lanes", "to_scalars", "into", "unpack", "from_lanes", "from", "unsafe_from"):
        # pure re-interpretation: flat bits are preserved
        src = bv.inp("x", T.size_bits(atys[0]))
        cases.append(Case(method, [by_value(src, atys[0])], ret_flat, [("ret", src)]))
    elif method == "clone":
        st = pointee(atys[0])
        cell, p = mutref(x, st)
        cases.append(Case(method, [p], ret_flat, [("ret", x)]))
    elif method == "clone_from":
        st = pointee(atys[0])
        cell, p = mutref(x, st)
        cell2, p2 = mutref(y, st)
        cases.append(Case(method, [p, p2], lambda r, cell=cell, st=st: [("*self", flat(cell.v, st))], [("*self", y)]))
    elif method == "extract":
        eb = vec_elem_bits(it, rec["trait"])
        n = total // eb
        for i in range(n):
            cases.append(Case("extract(%d)" % i, [by_value(x, atys[0]), bv.const(i, 32)], ret_flat,
                              [("ret", x[i * eb:(i + 1) * eb])]))
    elif method == "insert":
        eb = vec_elem_bits(it, rec["trait"])
        n = total // eb
        wv = bv.inp("w", eb)
        for i in range(n):
            exp = x[:i * eb] + wv + x[(i + 1) * eb:]
            cases.append(Case("insert(%d)" % i, [by_value(x, atys[0]), by_value(wv, atys[1]), bv.const(i, 32)],
                              ret_flat, [("ret", exp)]))
    elif method == "transpose4":
        a, b, c, d = (bv.inp(nm, total) for nm in "abcd")
        exp = V.transpose4(a, b, c, d)
        cases.append(Case(method, [by_value(v, t) for v, t in zip((a, b, c, d), atys)],
                          lambda r: [("ret", flat(r, rty))], [("ret", bv.concat(exp))]))
    elif method in ("unsafe_read_le", "unsafe_read_be"):
        nbytes = total // 8
        src = bv.inp("bytes", total)
        cell = it.new_cell(Agg(src[8 * i:8 * i + 8] for i in range(nbytes)), "input")
        p = Ptr(cell, (), idx=0, meta=nbytes, ety="u8")
        exp = src if method.endswith("le") else V.bswap_each(src, w)
        cases.append(Case(method, [p], ret_flat, [("ret", exp)]))
    elif method in ("write_le", "write_be"):
        nbytes = total // 8
        old = bv.inp("old", total)
        cell = it.new_cell(Agg(old[8 * i:8 * i + 8] for i in range(nbytes)), "out")
        p = Ptr(cell, (), idx=0, meta=nbytes, ety="u8")
        exp = x if method.endswith("le") else V.bswap_each(x, w)
        cases.append(Case(method, [by_value(x, atys[0]), p],
                          lambda r, cell=cell: [("out", bv.concat(cell.v.f))], [("out", exp)]))
    else:
        raise Undecided("no scalar definition for method %s" % method)
    return cases


def decide_entry(f, rec):
    """-> list of (status, label, detail) for one vocabulary entry; status in ok/violated/undecided"""
    key = rec["inst"]
    inst = f.instances.get(key)
    out = []
    if inst is None:
        return [("undecided", rec["method"], "instance not extracted")]
    bv.reset()
    it = Interp(f, MODELS)
    try:
        cases = build_cases(it, rec, inst)
    except Undecided as e:
        return [("undecided", rec["method"], "case construction: %s" % e)]
    for c in cases:
        try:
            r = it.call_instance(key, c.args)
            got = c.outputs(r)
        except Diverge as d:
            out.append(("violated", c.label, "panics for in-domain operands: %s" % (d.site,)))
            continue
        except Undecided as e:
            out.append(("undecided", c.label, str(e)))
            continue
        except (AssertionError, TypeError, KeyError, IndexError, AttributeError, ValueError) as e:
            import traceback
            tb = traceback.extract_tb(e.__traceback__)[-1]
            out.append(("undecided", c.label, "engine error %s: %s at %s:%d" % (type(e).__name__, e, tb.filename.split("/")[-1], tb.lineno)))
            continue
        if it.panics:
            out.append(("violated", c.label, "may panic: %s" % (it.panics[0]["site"],)))
            continue
        bad = None
        bad_graphs = None
        for (gn, gb), (en, eb) in zip(got, c.expected):
            if len(gb) != len(eb):
                bad = "%s has %d bits, expected %d" % (gn, len(gb), len(eb))
                break
            i = bv.first_diff(gb, eb)
            if i is not None:
                bad = "%s differs from the scalar definition first at bit %d: got %s, expected %s" % (
                    gn, i, bv.show_bit(gb[i]), bv.show_bit(eb[i]))
                w = bv.find_witness(gb, eb)
                if w is None:
                    bad = None
                    out.append(("undecided", c.label, "normal forms differ at bit %d but no distinguishing operand values were found" % i))
                    bad_graphs = "skip"
                else:
                    bad += " [witness: %s]" % ", ".join("%s=%s" % (k, v[:40]) for k, v in w["inputs"].items())
                break
        if bad:
            out.append(("violated", c.label, bad))
        elif bad_graphs == "skip":
            pass
        else:
            out.append(("ok", c.label, None))
    return out


def machine_short(m):
    m = m.replace("ppv_lite86::x86_64::", "").replace("ppv_lite86::generic::", "")
    return m


def run(report, prop, configs):
    """Decide all vocabulary entries belonging to `prop` in the given configurations."""
    total_entries = 0
    distinct = 0
    for cfg in configs:
        f = facts.load(cfg)
        cache = {}
        for rec in f.vocab:
            p = V.property_of(rec["method"])
            if p is None:
                report.undecide("R%s.1" % prop[1:], "%s@%s" % (rec["inst"], cfg), "method %s has no scalar definition" % rec["method"])
                continue
            if p != prop:
                continue
            total_entries += 1
            ckey = (rec["inst"], rec["trait"])
            if ckey not in cache:
                cache[ckey] = decide_entry(f, rec)
                distinct += 1
                first = True
            else:
                first = False
            rule = "R%s.1" % prop[1:]
            for status, label, detail in cache[ckey]:
                ikey = "%s:%s@%s" % (rec["inst"], label, cfg) if label != rec["method"] else "%s@%s" % (rec["inst"], cfg)
                if status == "ok":
                    report.ok(rule, ikey, sample={"machine": machine_short(rec["machine"]), "type": rec["assoc"],
                                                  "method": label, "config": cfg} if first else None)
                elif first:
                    if status == "violated":
                        report.violated(rule, ikey, "%s %s::%s: %s" % (machine_short(rec["vector_ty"]), rec["trait_def"].split("::")[-1], label, detail),
                                        {"machine": rec["machine"], "trait": rec["trait"]})
                    else:
                        report.undecide(rule, ikey, detail)
    report.extra["vocabulary_entries"] = total_entries
    report.extra["distinct_instances"] = distinct
    return total_entries


def storage_conversions(report, cfg):
    """R13.3: the storage types' own conversions (From impls, new128/split128, Default) are the identity
    on the flat little-endian layout, identically on the x86 and the portable backend."""
    f = facts.load(cfg, "ppv_lite86")
    n = 0
    for r in f.roots:
        key = r["inst"]
        inst = f.instances[key]
        body = inst.get("body")
        if not body:
            continue
        m = re.search(r"(?:as core::convert::From<.*>>::from|::new128|::split128|as core::default::Default>::default)$", key)
        if not m or "storage" not in key:
            continue
        atys = body["locals"][1:1 + body["arg_count"]]
        rty = body["locals"][0]
        kinds = [f.types[t]["kind"] for t in atys + [rty]]
        if any(k in ("ref", "rawptr") for k in kinds):
            continue
        ikey = "ppv_lite86::%s@%s" % (key, cfg)
        n += 1
        bv.reset()
        it = Interp(f, MODELS)
        try:
            args = [it.from_bits(bv.inp("x%d" % i, it.ty.size_bits(t)), t) for i, t in enumerate(atys)]
            ret = it.call_instance(key, args)
            got = it.to_bits(ret, rty)
            exp = bv.concat(bv.inp("x%d" % i, it.ty.size_bits(t)) for i, t in enumerate(atys)) if atys else bv.const(0, it.ty.size_bits(rty))
            if len(got) != len(exp):
                report.violated("R13.3", ikey, "%s changes the size of the data (%d -> %d bits)" % (key, len(exp), len(got)))
            elif got != exp:
                i = bv.first_diff(got, exp)
                report.violated("R13.3", ikey, "%s is not the identity on the little-endian flat layout: bit %d is %s" % (key, i, bv.show_bit(got[i])),
                                graphs=(got, exp))
            else:
                report.ok("R13.3", ikey, sample={"conversion": key, "config": cfg} if n <= 2 else None)
        except Diverge as d:
            report.violated("R13.3", ikey, "%s panics: %s" % (key, d.site[:2]))
        except Undecided as e:
            report.undecide("R13.3", ikey, str(e))
    return n
