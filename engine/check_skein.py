"""C05: Skein UBI chaining, configuration block, lazy final block, counter-mode output as value
graphs against spec/skein.py, with Threefish as an uninterpreted symbol on both sides (C09
decides Threefish itself)."""
import re

from . import bv, facts
from .bv import ZERO, ONE
from .interp import Interp, Undecided, Diverge, Agg, Enum, Ptr
from .models import M as MODELS
from .check_threefish import engine_guard, find, bytes_cell, cell_bytes, only_beyond_format_limit
from .check_blake import by_name, with_field
from spec import skein as S

SIZES = {"Skein256": 32, "Skein512": 64, "Skein1024": 128}


def tf_hooks(it_types):
    def with_tweak(it, key, args, callee):
        kp, t0, t1 = args
        inst = it.ins[key]
        rty = inst["body"]["locals"][0]
        kt = it.ty.get(inst["body"]["locals"][1])["pointee"]
        kb = it.to_bits(it.deref_read(kp, kt), kt)
        return it.from_bits(bv.ufn("TFKS", (kb, t0, t1), it.ty.size_bits(rty)), rty)

    def encrypt(it, key, args, callee):
        sp, bp = args
        inst = it.ins[key]
        st = it.ty.get(inst["body"]["locals"][1])["pointee"]
        bt = it.ty.get(inst["body"]["locals"][2])["pointee"]
        sb = it.to_bits(it.deref_read(sp, st), st)
        bb = it.to_bits(it.deref_read(bp, bt), bt)
        it.deref_write(bp, bt, it.from_bits(bv.ufn("TFENC", (sb, bb), len(bb)), bt))
        return Agg(())
    return {r"^threefish_cipher::Threefish\d+::with_tweak$": with_tweak,
            r"^<threefish_cipher::Threefish\d+ as cipher::block::BlockEncrypt>::encrypt_block$": encrypt}


def ufn_tf(ks_bits):
    def tf(key, t0, t1, block):
        ks = bv.ufn("TFKS", (key, t0, t1), ks_bits)
        return bv.ufn("TFENC", (ks, block), len(block))
    return tf


def hasher_types(f):
    """[(type key, name, block bytes, output bytes)] of every instantiated Skein hasher."""
    out = []
    for k, d in f.types.items():
        m = re.match(r"skein_hash::(Skein\d+)<(.*)>$", k)
        if m and d.get("kind") == "struct":
            n = facts.typenum_value(m.group(2))
            if n:
                out.append((k, m.group(1), SIZES[m.group(1)], n))
    return sorted(out)


ALLOWED_ASSERTS = [
    (r"^skein_hash::Skein\d+::<.*>::process_block$", "overflow:Add",
     "t.0 += byte_count overflows only after 2^64 bytes, the format limit stated in the property"),
]


def filter_asserts(it, report, rule, ikey):
    bad = False
    for a in it.asserts:
        if any(re.search(rx, a["inst"]) and a["kind"] == kind for rx, kind, _ in ALLOWED_ASSERTS):
            continue
        if a["kind"].startswith("overflow") and only_beyond_format_limit(a, ("t0",)):
            continue
        report.violated(rule, "%s:%s:%s" % (ikey, facts.short(a["inst"], 80), a["kind"]),
                        "%s assertion in %s can fail for some inputs" % (a["kind"], facts.short(a["inst"], 80)))
        bad = True
    for p in it.panics:
        report.violated(rule, "%s:panic" % ikey, "conditional panic: %s" % (p["site"],))
        bad = True
    return bad


def ks_size(it, nb):
    return it.ty.size_bits("threefish_cipher::Threefish%d" % (nb * 8))


def c05_process_block(report, cfg):
    f = facts.load(cfg)
    done = set()
    for t, name, nb, n in hasher_types(f):
        if name in done:
            continue
        done.add(name)
        ikey = "%s::process_block@%s" % (name, cfg)

        def go():
            bv.reset()
            it = Interp(f, MODELS, hooks=tf_hooks(None))
            ks = f.find(r"^skein_hash::%s::<%s>::process_block$" % (name, re.escape(t.split("<", 1)[1][:-1])))
            if len(ks) != 1:
                # a private helper: when it does not exist (renamed, split, inlined) this lemma has no subject;
                # the UBI chaining is then decided by R5.3 / R5.4 / R5.6 alone
                report.note("R5.1 skipped for %s: no private function process_block (the rule is a lemma about it)" % name)
                return
            key = ks[0]
            inst = f.instances[key]
            st_t = it.ty.get(inst["body"]["locals"][1])["pointee"]
            t0, t1 = bv.inp("t0", 64), bv.inp("t1", 64)
            x = bv.inp("x", 8 * nb)
            xf, xt, _ = by_name(it, it.from_bits(bv.inp("s", it.ty.size_bits(st_t)), st_t), st_t, "x")
            sv = Agg([None, None])
            names = [fl["name"] for fl in it.ty.get(st_t)["variants"][0]["fields"]]
            vals = {"t": Agg([t0, t1]), "x": it.from_bits(x, xt)}
            scell = it.new_cell(Agg([vals[nm] for nm in names]), "state")
            blk, bcell = bytes_cell(it, "block", nb)
            cnt = bv.inp("n", 64)
            it.call_instance(key, [Ptr(scell, ()), Ptr(bcell, ()), cnt])
            if filter_asserts(it, report, "R5.1", ikey):
                return
            tt, _, _ = by_name(it, scell.v, st_t, "t")
            xx, xxt, _ = by_name(it, scell.v, st_t, "x")
            tf = ufn_tf(ks_size(it, nb))
            e_t0 = bv.add(t0, cnt)
            e_x = S.ubi_block(tf, x, e_t0, t1, blk)
            e_t1 = bv.and_(t1, bv.const(~S.T1_FIRST, 64))
            if tt.f[0] != e_t0 or tt.f[1] != e_t1:
                report.violated("R5.1", ikey, "%s::process_block: tweak update is not (t0 + n, t1 & !FIRST)" % name, graphs=(tt.f[0] + tt.f[1], e_t0 + e_t1))
            elif it.to_bits(xx, xxt) != e_x:
                report.violated("R5.1", ikey, "%s::process_block: chaining value is not Threefish(x, (t0+n, t1), block) xor block" % name, graphs=(it.to_bits(xx, xxt), e_x), boundary=(it, 1))
            else:
                report.ok("R5.1", ikey, sample={"fn": "%s::process_block" % name, "threefish": "uninterpreted (decided under C09)"})
        engine_guard(go, report, "R5.1", ikey)


def c05_default(report, cfg):
    f = facts.load(cfg)
    for t, name, nb, n in hasher_types(f):
        ikey = "%s<%d>::default@%s" % (name, n, cfg)

        def go():
            bv.reset()
            it = Interp(f, MODELS, hooks=tf_hooks(None))
            d = find(f, r"^<%s as core::default::Default>::default$" % re.escape(t))
            v = it.call_instance(d, [])
            if filter_asserts(it, report, "R5.2", ikey):
                return
            st, stt, _ = by_name(it, v, t, "state")
            tt, _, _ = by_name(it, st, stt, "t")
            xx, xxt, _ = by_name(it, st, stt, "x")
            buf, bt, _ = by_name(it, v, t, "buffer")
            pos, _, _ = by_name(it, buf, bt, "pos")
            tf = ufn_tf(ks_size(it, nb))
            exp = S.initial_state(tf, nb, n)
            if it.to_bits(xx, xxt) != exp:
                report.violated("R5.2", ikey, "%s<%d>: initial chaining value is not UBI(0, config block {SHA3 v1, %d output bits}, type CFG first+final, position 32)" % (name, n, 8 * n),
                                graphs=(it.to_bits(xx, xxt), exp), boundary=(it, 1))
            elif bv.const_value(tt.f[0]) != 0 or bv.const_value(tt.f[1]) != (S.T1_FIRST | S.TYPE_MSG) or bv.const_value(pos) != 0:
                report.violated("R5.2", ikey, "%s<%d>::default: message tweak is not (0, FIRST|MSG) or the buffer is not empty" % (name, n))
            else:
                report.ok("R5.2", ikey, sample={"hasher": name, "output_bytes": n})
        engine_guard(go, report, "R5.2", ikey)


def c05_finalize(report, cfg, only=None, positions=None):
    f = facts.load(cfg)
    total = 0
    for t, name, nb, n in hasher_types(f):
        if only and (name, n) != only:
            continue
        fin = find(f, r"^<%s as digest::fixed::FixedOutputDirty>::finalize_into_dirty$" % re.escape(t))
        for p in (positions(nb + 1) if positions else range(nb + 1)):
            ikey = "%s<%d>::finalize pos=%d@%s" % (name, n, p, cfg)
            total += 1

            def go():
                bv.reset()
                it = Interp(f, MODELS, hooks=tf_hooks(None))
                v = it.from_bits(bv.inp("self", it.ty.size_bits(t)), t)
                st, stt, _ = by_name(it, v, t, "state")
                t0, t1 = bv.inp("t0", 64), bv.inp("t1", 64)
                x = bv.inp("x", 8 * nb)
                _, xt, _ = by_name(it, st, stt, "x")
                st = with_field(it, st, stt, "t", Agg([t0, t1]))
                st = with_field(it, st, stt, "x", it.from_bits(x, xt))
                v = with_field(it, v, t, "state", st)
                buf, bt, _ = by_name(it, v, t, "buffer")
                data = bv.inp("buf", 8 * nb)
                buf = with_field(it, buf, bt, "buffer", Agg(data[8 * i:8 * i + 8] for i in range(nb)))
                buf = with_field(it, buf, bt, "pos", bv.const(p, 64))
                v = with_field(it, v, t, "buffer", buf)
                scell = it.new_cell(v, "hasher")
                _, ocell = bytes_cell(it, "out", n)
                it.call_instance(fin, [Ptr(scell, ()), Ptr(ocell, ())])
                if filter_asserts(it, report, "R5.4", ikey):
                    return
                tf = ufn_tf(ks_size(it, nb))
                xf = S.final_message_block(tf, nb, x, t0, t1, data, p)
                exp = S.output(tf, nb, xf, n)
                got = cell_bytes(ocell)
                i = bv.first_diff(got, exp)
                if i is None:
                    report.ok("R5.4", ikey, sample={"hasher": "%s<%d>" % (name, n), "buffered": p} if p in (0, nb) else None)
                else:
                    report.violated("R5.4", ikey, "%s<%d> finalisation with %d buffered bytes: digest byte %d differs from final-UBI + counter-mode output of Skein 1.3" % (name, n, p, i // 8), graphs=(got, exp), boundary=(it, 2))
            engine_guard(go, report, "R5.4", ikey)
    return total


def c05_update(report, cfg):
    """R5.3: update holds the last full block back (input_lazy) and feeds process_block with the
    block size as byte count; checked on symbolic data for boundary (position, length) pairs."""
    f = facts.load(cfg)
    done = set()
    total = 0
    for t, name, nb, n in hasher_types(f):
        if name in done:
            continue
        done.add(name)
        upd = find(f, r"^<%s as digest::Update>::update::<&\[u8\]>$" % re.escape(t))
        for p in (0, 1, 17, nb - 1, nb):
            for ln in (0, 1, nb - 1, nb, nb + 1, 2 * nb, 2 * nb + 1, 4 * nb + nb - 14, 8 * nb + 3):
                ikey = "%s::update pos=%d len=%d@%s" % (name, p, ln, cfg)
                total += 1

                def go():
                    bv.reset()
                    it = Interp(f, MODELS, hooks=tf_hooks(None))
                    v = it.from_bits(bv.inp("self", it.ty.size_bits(t)), t)
                    st, stt, _ = by_name(it, v, t, "state")
                    t0, t1 = bv.inp("t0", 64), bv.inp("t1", 64)
                    x = bv.inp("x", 8 * nb)
                    _, xt, _ = by_name(it, st, stt, "x")
                    st = with_field(it, st, stt, "t", Agg([t0, t1]))
                    st = with_field(it, st, stt, "x", it.from_bits(x, xt))
                    v = with_field(it, v, t, "state", st)
                    buf, bt, _ = by_name(it, v, t, "buffer")
                    old = bv.inp("buf", 8 * nb)
                    buf = with_field(it, buf, bt, "buffer", Agg(old[8 * i:8 * i + 8] for i in range(nb)))
                    buf = with_field(it, buf, bt, "pos", bv.const(p, 64))
                    v = with_field(it, v, t, "buffer", buf)
                    scell = it.new_cell(v, "hasher")
                    dbits, dcell = bytes_cell(it, "data", ln)
                    dref = it.new_cell(Ptr(dcell, (), idx=0, meta=ln, ety="u8"), "dataref")
                    it.call_instance(upd, [Ptr(scell, ()), Ptr(dcell, (), idx=0, meta=ln, ety="u8")])
                    if filter_asserts(it, report, "R5.3", ikey):
                        return
                    # reference: the stream = old[0..p] ++ data; every block but the (non-empty) last is processed
                    stream = old[:8 * p] + dbits
                    tot = p + ln
                    tf = ufn_tf(ks_size(it, nb))
                    ex, et0, et1 = x, t0, t1
                    off = 0
                    while tot - off > nb:
                        blk = stream[8 * off:8 * (off + nb)]
                        et0 = bv.add(et0, bv.const(nb, 64))
                        ex = S.ubi_block(tf, ex, et0, et1, blk)
                        et1 = bv.and_(et1, bv.const(~S.T1_FIRST, 64))
                        off += nb
                    rest = stream[8 * off:]
                    v2 = scell.v
                    st2, _, _ = by_name(it, v2, t, "state")
                    tt, _, _ = by_name(it, st2, stt, "t")
                    xx, xxt, _ = by_name(it, st2, stt, "x")
                    buf2, _, _ = by_name(it, v2, t, "buffer")
                    pos2, _, _ = by_name(it, buf2, bt, "pos")
                    bytes2, gt, _ = by_name(it, buf2, bt, "buffer")
                    if bv.const_value(pos2) != tot - off:
                        report.violated("R5.3", ikey, "%s::update: %d bytes stay buffered, expected %d (the last full block must be held back)" % (name, bv.const_value(pos2) or -1, tot - off))
                    elif it.to_bits(bytes2, gt)[:len(rest)] != rest:
                        report.violated("R5.3", ikey, "%s::update: buffered bytes are not the tail of the input stream" % name, graphs=(it.to_bits(bytes2, gt)[:len(rest)], rest))
                    elif it.to_bits(xx, xxt) != ex or tt.f[0] != et0 or tt.f[1] != et1:
                        report.violated("R5.3", ikey, "%s::update: chaining value / tweak after the call differ from UBI over the complete blocks" % name,
                                        graphs=(it.to_bits(xx, xxt) + tt.f[0] + tt.f[1], ex + et0 + et1), boundary=(it, 1 if off else 0))
                    else:
                        report.ok("R5.3", ikey, sample={"hasher": name, "pos": p, "len": ln} if (p, ln) == (1, 2 * nb) else None)
                engine_guard(go, report, "R5.3", ikey)
    return total
