"""C06: JH.  R6.1 the bit-sliced S-box layer `ss` equals S0/S1 column by column (complete truth
tables), R6.2 `l` equals the MDS map L, R6.3 f8_impl as a whole equals the nibble-oriented F8 of
the specification (S-box layer as an uninterpreted function on both sides, everything else exact),
R6.4 padding for every buffer position, R6.5 initial values and truncation."""
import re

from . import bv, facts
from .bv import ZERO, ONE
from .interp import Interp, Undecided, Diverge, Agg, Enum, Ptr
from .models import M as MODELS
from .check_threefish import engine_guard, find, bytes_cell, cell_bytes, only_beyond_format_limit
from .check_blake import by_name, with_field
from spec import jh as J

HASHERS = {"Jh224": 224, "Jh256": 256, "Jh384": 384, "Jh512": 512}
EVEN = (0, 2, 4, 6)
ODD = (1, 3, 5, 7)


def machines(f):
    out = []
    for k in f.instances:
        m = re.match(r"^jh_x86_64::compressor::f8_impl::<(.*)>$", k)
        if m:
            out.append(m.group(1))
    return sorted(out)


def layers(f, mach):
    """The S-box layer and the linear layer of the bit-sliced F8 for one machine, found by SIGNATURE among the
    Machine-generic functions of jh_x86_64::compressor: the state type is the struct of eight 128-bit words;
    S-box layer = fn(state | &mut state, 256-bit constant) -> state | (), linear layer = fn(state | &mut state)
    -> state | ().  -> (ss key, l key, state type)"""
    cands_ss, cands_l = [], []
    st_ty = None
    for k, inst in f.instances.items():
        b = inst.get("body")
        if not b or not inst["def"].startswith("jh_x86_64::compressor::") or "{" in inst["def"]:
            continue
        ga = inst.get("generic_args", [])
        if len(ga) != 1 or ga[0].get("ty") != mach:
            continue
        n = b["arg_count"]
        loc = b["locals"]

        def state_of(t):
            base = t[5:] if t.startswith("&mut ") else t
            d = f.types.get(base)
            if d and d.get("kind") == "struct" and d.get("krate") == "jh_x86_64" and len(d["variants"][0]["fields"]) == 8 \
                    and d.get("size") == 128:
                return base
            return None
        if n >= 1 and state_of(loc[1]):
            base = state_of(loc[1])
            ret_ok = loc[0] == base or loc[0] == "()"
            byref = loc[1].startswith("&mut ")
            if not ret_ok or (loc[0] == "()" and not byref):
                continue
            if n == 2 and (f.types.get(loc[2]) or {}).get("size") == 32 and not loc[2].startswith("&"):
                cands_ss.append(k)
                st_ty = base
            elif n == 1:
                cands_l.append(k)
                st_ty = base
    if len(cands_ss) != 1 or len(cands_l) != 1:
        raise Undecided("JH layers for %s: %d S-box layer and %d linear layer candidates" % (facts.short(mach, 40), len(cands_ss), len(cands_l)))
    return cands_ss[0], cands_l[0], st_ty


def layer_rx(f):
    """(regex of all S-box layer instances, regex of all linear layer instances)"""
    ss, ll = set(), set()
    for m in machines(f):
        a, b, _ = layers(f, m)
        ss.add(f.instances[a]["def"])
        ll.add(f.instances[b]["def"])
    return "^(%s)::<" % "|".join(re.escape(d) for d in sorted(ss)), "^(%s)::<" % "|".join(re.escape(d) for d in sorted(ll))


def call_layer(it, f, key, st_ty, state_val, extra):
    """Call a layer function whatever its convention (by value returning the state, or in place)."""
    loc = f.instances[key]["body"]["locals"]
    if loc[1].startswith("&mut "):
        cell = it.new_cell(state_val, "jh-state")
        r = it.call_instance(key, [Ptr(cell, ())] + extra)
        return cell.v if loc[0] == "()" else r
    return it.call_instance(key, [state_val] + extra)


def x8_words(it, v, t):
    """The eight 128-bit words of an X8<M> value (flat bits each)."""
    v = it.as_agg(v, t)
    return [it.to_bits(x, ft) for x, (off, ft) in zip(v.f, it.ty.fields(t))]


def c06_ss(report, cfg):
    """R6.1: complete truth table of every bit column of ss against S0/S1."""
    f = facts.load(cfg)
    for mach in machines(f):
        ikey = "ss<%s>@%s" % (facts.short(mach, 60), cfg)

        def go():
            bv.reset()
            it = Interp(f, MODELS)
            key, _, t_state = layers(f, mach)
            inst = f.instances[key]
            t_k = inst["body"]["locals"][2]
            rty = t_state
            ws = [bv.inp("w%d" % i, 128) for i in range(8)]
            kk = bv.inp("k", 256)
            fields = it.ty.fields(t_state)
            st = Agg(it.from_bits(w, ft) for w, (off, ft) in zip(ws, fields))
            out = call_layer(it, f, key, t_state, st, [it.from_bits(kk, t_k)])
            ow = x8_words(it, out, rty)
            bad = None
            cols = 0
            for half, idx in ((0, EVEN), (1, ODD)):
                for j in range(128):
                    cols += 1
                    allowed = {("w%d" % i, j) for i in idx} | {("k", 128 * half + j)}
                    outs = [ow[i][j] for i in idx]
                    sup = bv.support(tuple(outs))
                    if not sup <= allowed:
                        bad = "column %d of words %s depends on other bits: %s" % (j, idx, sorted(sup - allowed)[:4])
                        break
                    for c in (0, 1):
                        for x in range(16):
                            env = {"k": c << (128 * half + j)}
                            for n, i in enumerate(idx):     # word idx[0] holds the most significant bit
                                env["w%d" % i] = ((x >> (3 - n)) & 1) << j
                            for i in range(8):
                                env.setdefault("w%d" % i, 0)
                            ev = bv.Evaluator(env)
                            y = 0
                            for n, o in enumerate(outs):
                                y |= ev.bit(o) << (3 - n)
                            if y != J.S[c][x]:
                                bad = "column %d of words %s: S%d(%d) = %d, specification says %d" % (j, idx, c, x, y, J.S[c][x])
                                break
                        if bad:
                            break
                    if bad:
                        break
                if bad:
                    break
            if bad:
                report.violated("R6.1", ikey, "bit-sliced S-box layer on %s: %s" % (facts.short(mach, 60), bad))
            else:
                report.ok("R6.1", ikey, sample={"fn": "ss", "machine": facts.short(mach, 60), "columns": cols, "truth_table_rows_per_column": 32})
        engine_guard(go, report, "R6.1", ikey)


def c06_l(report, cfg):
    """R6.2: l = the linear map L on (even-word nibble, odd-word nibble) of every bit column."""
    f = facts.load(cfg)
    for mach in machines(f):
        ikey = "l<%s>@%s" % (facts.short(mach, 60), cfg)

        def go():
            bv.reset()
            it = Interp(f, MODELS)
            _, key, t_state = layers(f, mach)
            rty = t_state
            ws = [bv.inp("w%d" % i, 128) for i in range(8)]
            fields = it.ty.fields(t_state)
            st = Agg(it.from_bits(w, ft) for w, (off, ft) in zip(ws, fields))
            out = call_layer(it, f, key, t_state, st, [])
            ow = x8_words(it, out, rty)
            dom = J.BvDom()
            for j in range(128):
                a = dom.from_bits([ws[i][j] for i in EVEN])
                b = dom.from_bits([ws[i][j] for i in ODD])
                c, d = J.L(dom, a, b)
                got_c = dom.from_bits([ow[i][j] for i in EVEN])
                got_d = dom.from_bits([ow[i][j] for i in ODD])
                if got_c != c or got_d != d:
                    report.violated("R6.2", ikey, "linear layer on %s: bit column %d is not (C, D) = (5A + 2B, 2A + B) over GF(2^4)/(x^4+x+1)" % (facts.short(mach, 60), j))
                    return
            report.ok("R6.2", ikey, sample={"fn": "l", "machine": facts.short(mach, 60)})
        engine_guard(go, report, "R6.2", ikey)


def ss_hook(it, key, args, callee):
    """Modular mode: the S-box layer as uninterpreted nibble functions JH_S0 / JH_S1 (R6.1 decides that
    the real body is exactly this, column by column)."""
    inst = it.ins[key]
    t_state, t_k = inst["body"]["locals"][1:3]
    rty = inst["body"]["locals"][0]
    inplace = t_state.startswith("&mut ")
    if inplace:
        t_state = t_state[5:]
        ws = x8_words(it, it.deref_read(args[0], t_state), t_state)
    else:
        ws = x8_words(it, args[0], t_state)
    kk = it.to_bits(args[1], t_k)
    out = [[None] * 128 for _ in range(8)]
    for half, idx in ((0, EVEN), (1, ODD)):
        for j in range(128):
            c = bv.const_value((kk[128 * half + j],))
            if c is None:
                raise Undecided("symbolic JH round constant bit")
            nib = tuple(ws[i][j] for i in reversed(idx))          # lsb first; word idx[0] is the msb
            y = bv.ufn("JH_S%d" % c, (nib,), 4)
            for n, i in enumerate(idx):
                out[i][j] = y[3 - n]
    fields = it.ty.fields(t_state)
    res = Agg(it.from_bits(tuple(w), ft) for w, (off, ft) in zip(out, fields))
    if inplace:
        it.deref_write(args[0], t_state, res)
        return Agg(()) if rty == "()" else res
    return res


def bytes_to_msb_bits(flat):
    """flat byte string (byte 0 first, lsb-first inside bytes) -> list of bits, msb of byte 0 first"""
    out = []
    for i in range(0, len(flat), 8):
        out.extend(reversed(flat[i:i + 8]))
    return out


def msb_bits_to_bytes(bits):
    out = []
    for i in range(0, len(bits), 8):
        out.extend(reversed(bits[i:i + 8]))
    return tuple(out)


def spec_f8(hflat, mflat):
    dom = J.BvDom()
    r = J.F8(dom, bytes_to_msb_bits(hflat), bytes_to_msb_bits(mflat), lambda a, b: a ^ b)
    return msb_bits_to_bytes(r)


def c06_f8(report, cfg, only=None):
    f = facts.load(cfg)
    n = 0
    for mach in machines(f):
        if only and mach != only:
            continue
        ikey = "f8_impl<%s>@%s" % (facts.short(mach, 60), cfg)
        n += 1

        def go():
            bv.reset()
            it = Interp(f, MODELS, hooks={layer_rx(f)[0]: ss_hook})
            key = "jh_x86_64::compressor::f8_impl::<%s>" % mach
            inst = f.instances[key]
            atys = inst["body"]["locals"][1:4]
            st_t = it.ty.get(atys[1])["pointee"]
            h = bv.inp("h", 1024)
            scell = it.new_cell(it.from_bits(h, st_t), "state")
            m, mcell = bytes_cell(it, "m", 64)
            mach_v = Agg(()) if it.ty.size_bits(atys[0]) == 0 else it.from_bits((), atys[0])
            it.call_instance(key, [mach_v, Ptr(scell, ()), Ptr(mcell, (), idx=0, meta=None, ety="u8")])
            if it.asserts or it.panics:
                report.violated("R6.3", ikey + ":assert", "operand-dependent assertion/panic inside f8")
                return
            got = it.to_bits(scell.v, st_t)
            exp = spec_f8(h, m)
            i = bv.first_diff(got, exp)
            if i is None:
                report.ok("R6.3", ikey, sample={"fn": "f8_impl", "machine": facts.short(mach, 60), "rounds": 42, "atoms": bv.n_atoms()})
            else:
                report.violated("R6.3", ikey, "F8 on %s: state byte %d bit %d differs from the specification's E8-based compression function (42 rounds, generated round constants, P8, grouping)"
                                % (facts.short(mach, 60), i // 8, i % 8), graphs=(got, exp))
        engine_guard(go, report, "R6.3", ikey)
    return n


def c06_dispatch(report, cfg):
    """f8 through the run-time dispatcher (all arms joined) = specification."""
    f = facts.load(cfg)
    ikey = "f8 (dispatch)@%s" % cfg

    def go():
        bv.reset()
        it = Interp(f, MODELS, hooks={layer_rx(f)[0]: ss_hook})
        key = find(f, r"^jh_x86_64::compressor::f8$")
        st_t = it.ty.get(f.instances[key]["body"]["locals"][1])["pointee"]
        h = bv.inp("h", 1024)
        scell = it.new_cell(it.from_bits(h, st_t), "state")
        m, mcell = bytes_cell(it, "m", 64)
        it.call_instance(key, [Ptr(scell, ()), Ptr(mcell, (), idx=0, meta=None, ety="u8")])
        got = it.to_bits(scell.v, st_t)
        if got == spec_f8(h, m):
            report.ok("R6.6", ikey)
        else:
            cpu = sorted({n for n, _ in bv.support(got) if n.startswith("cpu.")})
            report.violated("R6.6", ikey, "F8 through the dispatcher differs from the specification%s" % (" and depends on CPU detection %s" % cpu if cpu else ""), graphs=(got, spec_f8(h, m)))
    engine_guard(go, report, "R6.6", ikey)


def input_hook(it, key, args, callee):
    st = it.ty.get(it.ins[key]["body"]["locals"][1])["pointee"]
    gt = it.ty.get(it.ins[key]["body"]["locals"][2])["pointee"]
    s = it.to_bits(it.deref_read(args[0], st), st)
    m = it.to_bits(it.deref_read(args[1], gt), gt)
    it.deref_write(args[0], st, it.from_bits(bv.ufn("JH_F8", (s, m), len(s)), st))
    return Agg(())


ALLOWED_ASSERTS = [
    (r"finalize_into_dirty$", "overflow:Mul", "datalen * 8 overflows only beyond 2^61 bytes, the implemented format limit"),
]


def c06_default(report, cfg):
    f = facts.load(cfg)
    for name, bits in HASHERS.items():
        ikey = "%s::default@%s" % (name, cfg)

        def go():
            bv.reset()
            it = Interp(f, MODELS)
            t = "jh_x86_64::%s" % name
            d = find(f, r"^<jh_x86_64::%s as core::default::Default>::default$" % name)
            v = it.call_instance(d, [])
            st, stt, _ = by_name(it, v, t, "state")
            dl, _, _ = by_name(it, v, t, "datalen")
            buf, bt, _ = by_name(it, v, t, "buffer")
            pos, _, _ = by_name(it, buf, bt, "pos")
            got = bv.const_value(it.to_bits(st, stt))
            exp = int.from_bytes(J.iv(bits), "little")
            if got != exp:
                report.violated("R6.5", ikey, "%s: initial value is not F8(H(-1) = %d-bit size || 0, 0) of the specification" % (name, bits))
            elif bv.const_value(dl) != 0 or bv.const_value(pos) != 0:
                report.violated("R6.5", ikey, "%s::default does not start with length 0 / empty buffer" % name)
            else:
                report.ok("R6.5", ikey, sample={"hasher": name, "iv_prefix": J.iv(bits)[:8].hex()})
        engine_guard(go, report, "R6.5", ikey)


def c06_finalize(report, cfg, only=None, positions=None):
    f = facts.load(cfg)
    total = 0
    for name, bits in HASHERS.items():
        if only and name != only:
            continue
        t = "jh_x86_64::%s" % name
        fin = find(f, r"^<jh_x86_64::%s as digest::fixed::FixedOutputDirty>::finalize_into_dirty$" % name)
        for p in (positions(64) if positions else range(64)):
            ikey = "%s::finalize pos=%d@%s" % (name, p, cfg)
            total += 1

            def go():
                bv.reset()
                it = Interp(f, MODELS, hooks={r"^jh_x86_64::compressor::Compressor::input$": input_hook})
                v = it.from_bits(bv.inp("self", it.ty.size_bits(t)), t)
                st, stt, _ = by_name(it, v, t, "state")
                s = bv.inp("state", it.ty.size_bits(stt))
                v = with_field(it, v, t, "state", it.from_bits(s, stt))
                dl = bv.inp("datalen", 64)
                v = with_field(it, v, t, "datalen", dl)
                buf, bt, _ = by_name(it, v, t, "buffer")
                data = bv.inp("buf", 512)
                buf = with_field(it, buf, bt, "buffer", Agg(data[8 * i:8 * i + 8] for i in range(64)))
                buf = with_field(it, buf, bt, "pos", bv.const(p, 64))
                v = with_field(it, v, t, "buffer", buf)
                scell = it.new_cell(v, "hasher")
                nout = bits // 8
                _, ocell = bytes_cell(it, "out", nout)
                it.call_instance(fin, [Ptr(scell, ()), Ptr(ocell, ())])
                for a in it.asserts:
                    if not any(re.search(rx, a["inst"]) and a["kind"] == k for rx, k, _ in ALLOWED_ASSERTS) \
                            and not (a["kind"].startswith("overflow") and only_beyond_format_limit(a, {"datalen": 4})):
                        report.violated("R6.4", ikey + ":" + a["kind"], "%s assertion in %s can fail for some inputs" % (a["kind"], facts.short(a["inst"], 80)))
                        return
                if it.panics:
                    report.violated("R6.4", ikey + ":panic", "conditional panic %s" % (it.panics[0]["site"],))
                    return
                lenbits = bv.shl(dl, 3)
                lenfield = bv.bswap(lenbits)          # 64-bit big-endian (upper 64 bits of the 128-bit field are zero)
                if p == 0:
                    blocks = [bv.const(0x80, 8) + bv.const(0, 8 * 55) + lenfield]
                else:
                    blocks = [data[:8 * p] + bv.const(0x80, 8) + bv.const(0, 8 * (63 - p)),
                              bv.const(0, 8 * 56) + lenfield]
                x = s
                for b in blocks:
                    x = bv.ufn("JH_F8", (x, b), len(x))
                exp = x[8 * (128 - nout):]
                got = cell_bytes(ocell)
                i = bv.first_diff(got, exp)
                if i is None:
                    report.ok("R6.4", ikey, sample={"hasher": name, "buffered": p, "blocks": len(blocks)} if p in (0, 1, 63) else None)
                else:
                    report.violated("R6.4", ikey, "%s finalisation with %d buffered bytes: digest byte %d differs from (0x80, zeros, big-endian bit length; %d block(s); last %d bytes of the state)"
                                    % (name, p, i // 8, len(blocks), nout), graphs=(got, exp), boundary=(it, len(blocks)))
            engine_guard(go, report, "R6.4", ikey)
    return total


def c06_update(report, cfg):
    """update adds the byte count and feeds complete blocks."""
    f = facts.load(cfg)
    total = 0
    name = "Jh256"
    t = "jh_x86_64::%s" % name
    upd = find(f, r"^<jh_x86_64::%s as digest::Update>::update::<&\[u8\]>$" % name)
    for p in (0, 1, 17, 63):
        for ln in (0, 1, 63, 64, 65, 130, 4 * 64 + 50, 8 * 64 + 3):
            ikey = "%s::update pos=%d len=%d@%s" % (name, p, ln, cfg)
            total += 1

            def go():
                bv.reset()
                it = Interp(f, MODELS, hooks={r"^jh_x86_64::compressor::Compressor::input$": input_hook})
                v = it.from_bits(bv.inp("self", it.ty.size_bits(t)), t)
                st, stt, _ = by_name(it, v, t, "state")
                s = bv.inp("state", it.ty.size_bits(stt))
                v = with_field(it, v, t, "state", it.from_bits(s, stt))
                dl = bv.inp("datalen", 64)
                v = with_field(it, v, t, "datalen", dl)
                buf, bt, _ = by_name(it, v, t, "buffer")
                old = bv.inp("buf", 512)
                buf = with_field(it, buf, bt, "buffer", Agg(old[8 * i:8 * i + 8] for i in range(64)))
                buf = with_field(it, buf, bt, "pos", bv.const(p, 64))
                v = with_field(it, v, t, "buffer", buf)
                scell = it.new_cell(v, "hasher")
                dbits, dcell = bytes_cell(it, "data", ln)
                it.call_instance(upd, [Ptr(scell, ()), Ptr(dcell, (), idx=0, meta=ln, ety="u8")])
                if it.panics or any(a["kind"] != "overflow:Add" for a in it.asserts):
                    report.violated("R6.7", ikey, "operand-dependent assertion in update")
                    return
                stream = old[:8 * p] + dbits
                nfull = (p + ln) // 64
                x = s
                for i in range(nfull):
                    x = bv.ufn("JH_F8", (x, stream[512 * i:512 * (i + 1)]), len(x))
                v2 = scell.v
                st2, _, _ = by_name(it, v2, t, "state")
                dl2, _, _ = by_name(it, v2, t, "datalen")
                buf2, _, _ = by_name(it, v2, t, "buffer")
                pos2, _, _ = by_name(it, buf2, bt, "pos")
                if it.to_bits(st2, stt) != x:
                    report.violated("R6.7", ikey, "update does not feed exactly the complete blocks of the stream to F8", graphs=(it.to_bits(st2, stt), x), boundary=(it, (p + ln) // 64))
                elif dl2 != bv.add(dl, bv.const(ln, 64)):
                    report.violated("R6.7", ikey, "update does not add the number of input bytes (%d) to the length counter" % ln, graphs=(dl2, bv.add(dl, bv.const(ln, 64))))
                elif bv.const_value(pos2) != (p + ln) % 64:
                    report.violated("R6.7", ikey, "wrong number of buffered bytes after update")
                else:
                    report.ok("R6.7", ikey)
            engine_guard(go, report, "R6.7", ikey)
    return total
