"""C07: Groestl compression + output transformation as a whole-chain value graph (S-box
uninterpreted, everything else bit-exact) for each dispatch arm; padding / block counting for every
buffer position; IV and truncation."""
import re

from . import bv, facts
from .bv import ZERO, ONE
from .interp import Interp, Undecided, Diverge, Agg, Enum, Ptr
from .models import M as MODELS
from .check_threefish import engine_guard, find, bytes_cell, cell_bytes, only_beyond_format_limit
from .check_blake import by_name, with_field
from spec import groestl as G

ARMS = ("aes", "ssse3", "sse2")
HASHERS = {"Groestl224": (224, 8, "Groestl256"), "Groestl256": (256, 8, None),
           "Groestl384": (384, 16, "Groestl512"), "Groestl512": (512, 16, None)}


def arm_hooks(arm):
    """Pin the run-time CPU detection so that the lazy_static dispatchers select one arm (each arm is
    checked in turn).  Nothing of the crate itself is replaced: the dispatcher, the function-pointer
    table and the selected arm are interpreted from their MIR."""
    feats = {"aes": {"aes": 1}, "ssse3": {"aes": 0, "ssse3": 1}, "sse2": {"aes": 0, "ssse3": 0, "sse2": 1}}[arm]

    def detected(it, key, args, callee):
        feat = key.rsplit("::", 1)[1]
        if feat not in feats:
            raise Undecided("CPU feature %s is consulted by the %s arm selection" % (feat, arm))
        return (ONE if feats[feat] else ZERO,)
    return {r"^std_detect::detect::arch::x86::__is_feature_detected::": detected}


def c07_chain(report, cfg, arm, nblocks):
    f = facts.load(cfg)
    for cols, cname, words in ((8, "Compressor512", 8), (16, "Compressor1024", 16)):
        ikey = "%s new+%dx input+finalize [%s arm]@%s" % (cname, nblocks, arm, cfg)

        def go():
            bv.reset()
            it = Interp(f, MODELS, hooks=arm_hooks(arm))
            bb = 8 * cols
            api = compressor_api(f, cname)
            new, inp, fin = api["new"], api["input"], api["finalize"]
            h = bv.inp("h", 8 * bb)
            hwords = Agg(h[64 * i:64 * i + 64] for i in range(words))
            comp = it.call_instance(new, [hwords])
            ccell = it.new_cell(comp, "compressor")
            exp_h = h
            for b in range(nblocks):
                m, mcell = bytes_cell(it, "m%d" % b, bb)
                bt = it.ty.get(f.instances[inp]["body"]["locals"][2])["pointee"]
                if it.ty.kind(bt) == "slice":     # input(&[Block]): a run of one block
                    it.call_instance(inp, [Ptr(ccell, ()), Ptr(mcell, (), idx=0, meta=1, ety="u8", vty=it.ty.get(bt)["elem"])])
                else:
                    it.call_instance(inp, [Ptr(ccell, ()), Ptr(mcell, ())])
                exp_h = G.compress(exp_h, m, cols, G.ufn_sbox)
            out = it.call_instance(fin, [Ptr(ccell, ())])
            if it.asserts or it.panics:
                report.violated("R7.3", ikey + ":assert", "operand-dependent assertion/panic inside the compression chain")
                return
            got = bv.concat(out.f) if isinstance(out, Agg) else out
            exp = G.output(exp_h, cols, G.ufn_sbox)
            # only the second half of the output transformation is defined by finalize_dirty (truncation)
            half = 4 * bb
            i = bv.first_diff(got[half:], exp[half:])
            if i is None:
                report.ok("R7.3", ikey, sample={"compressor": cname, "arm": arm, "blocks": nblocks, "rounds": G.ROUNDS[cols],
                                                "atoms": bv.n_atoms()})
            else:
                j = half + i
                report.violated("R7.3", ikey, "%s (%s arm): output byte %d (row %d, column %d) bit %d of Omega(f(h,m..)) differs from the Groestl specification"
                                % (cname, arm, j // 8, (j // 8) % 8, (j // 8) // 8, j % 8), graphs=(got[half:], exp[half:]))
        engine_guard(go, report, "R7.3", ikey)


def compressor_api(f, cname):
    """The three operations of a compressor type, found by SIGNATURE among the inherent functions of the crate
    (their private names are not part of any property): new: fn(words) -> C, absorb: fn(&mut C, &Block | &[Block]),
    output: fn(&mut C | &C) -> bytes.  -> {"new": key, "input": key, "finalize": key}"""
    ct = "groestl_aesni::%s" % cname
    out = {}
    for k, inst in f.instances.items():
        b = inst.get("body")
        if not b or f.defs[inst["def"]]["krate"] != "groestl_aesni":
            continue
        if not inst["def"].startswith(ct + "::") or "{" in inst["def"]:
            continue
        n = b["arg_count"]
        loc = b["locals"]
        ret = loc[0]
        if n == 1 and ret == ct and loc[1] != ct:
            out.setdefault("new", []).append(k)
        elif n == 2 and loc[1] in ("&mut " + ct,) and ret == "()" and loc[2].startswith("&"):
            out.setdefault("input", []).append(k)
        elif n == 1 and loc[1] in ("&mut " + ct, "&" + ct) and ret != "()" and ret != ct:
            out.setdefault("finalize", []).append(k)
    res = {}
    for role in ("new", "input", "finalize"):
        ks = out.get(role, [])
        if len(ks) != 1:
            raise Undecided("%s: %d candidate functions for the role '%s' (%s)" % (cname, len(ks), role, ks[:3]))
        res[role] = ks[0]
    return res


def opaque_compressor_hooks(cname, words, f=None):
    """Modular mode for the padding rule: the compressor is a black box with an abstract state."""
    def new(it, key, args, callee):
        rty = it.ins[key]["body"]["locals"][0]
        blk = bv.concat(args[0].f) if isinstance(args[0], Agg) else args[0]
        return it.from_bits(bv.ufn("G_NEW", (blk,), it.ty.size_bits(rty)), rty)

    def inp(it, key, args, callee):
        st = it.ty.get(it.ins[key]["body"]["locals"][1])["pointee"]
        gt = it.ty.get(it.ins[key]["body"]["locals"][2])["pointee"]
        s = it.to_bits(it.deref_read(args[0], st), st)
        if it.ty.kind(gt) == "slice":
            # a run of blocks: absorbed one after the other
            et = it.ty.get(gt)["elem"]
            blocks = [it.to_bits(x, et) for x in it.slice_elems(args[1])]
        else:
            blocks = [it.to_bits(it.deref_read(args[1], gt), gt)]
        for m in blocks:
            s = bv.ufn("G_INPUT", (s, m), len(s))
        it.deref_write(args[0], st, it.from_bits(s, st))
        return Agg(())

    def fin(it, key, args, callee):
        st = it.ty.get(it.ins[key]["body"]["locals"][1])["pointee"]
        rty = it.ins[key]["body"]["locals"][0]
        s = it.to_bits(it.deref_read(args[0], st), st)
        return it.from_bits(bv.ufn("G_FINAL", (s,), it.ty.size_bits(rty)), rty)
    if f is not None:
        api = compressor_api(f, cname)
        return {"^%s$" % re.escape(api["new"]): new, "^%s$" % re.escape(api["input"]): inp, "^%s$" % re.escape(api["finalize"]): fin}
    return {r"^groestl_aesni::%s::new$" % cname: new, r"^groestl_aesni::%s::input$" % cname: inp,
            r"^groestl_aesni::%s::finalize_dirty$" % cname: fin}


ALLOWED_ASSERTS = [
    (r"^groestl_aesni::Groestl\d+::finalize_dirty$", "overflow:Add",
     "block_counter + 1 + extra overflows only beyond 2^64 blocks, the format limit"),
]


def filter_asserts(it, report, rule, ikey):
    bad = False
    for a in it.asserts:
        if any(re.search(rx, a["inst"]) and a["kind"] == kind for rx, kind, _ in ALLOWED_ASSERTS):
            continue
        if a["kind"].startswith("overflow") and only_beyond_format_limit(a, ("blocks",)):
            continue
        report.violated(rule, "%s:%s:%s" % (ikey, facts.short(a["inst"], 80), a["kind"]),
                        "%s assertion in %s can fail for some inputs" % (a["kind"], facts.short(a["inst"], 80)))
        bad = True
    for p in it.panics:
        report.violated(rule, "%s:panic" % ikey, "conditional panic: %s" % (p["site"],))
        bad = True
    return bad


def c07_default(report, cfg):
    f = facts.load(cfg)
    for name, (bits, cols, inner) in HASHERS.items():
        ikey = "%s::default@%s" % (name, cfg)

        def go():
            bv.reset()
            cname = "Compressor512" if cols == 8 else "Compressor1024"
            it = Interp(f, MODELS, hooks=opaque_compressor_hooks(cname, cols, f))
            t = "groestl_aesni::%s" % name
            d = find(f, r"^<groestl_aesni::%s as core::default::Default>::default$" % name)
            v = it.call_instance(d, [])
            if inner:
                v = it.as_agg(v, t).f[0]
                t = "groestl_aesni::%s" % inner
            comp, ct, _ = by_name(it, v, t, "compressor")
            cnt, _, _ = by_name(it, v, t, "block_counter")
            buf, bt, _ = by_name(it, v, t, "buffer")
            pos, _, _ = by_name(it, buf, bt, "pos")
            exp = bv.ufn("G_NEW", (G.iv(cols, bits),), it.ty.size_bits(ct))
            if it.to_bits(comp, ct) != exp:
                report.violated("R7.5", ikey, "%s: the initial value handed to the compressor is not the %d-bit encoding of the output size in the last bytes" % (name, bits))
            elif bv.const_value(cnt) != 0 or bv.const_value(pos) != 0:
                report.violated("R7.5", ikey, "%s::default does not start with block counter 0 / empty buffer" % name)
            else:
                report.ok("R7.5", ikey, sample={"hasher": name, "iv_last_bytes": "%04x" % bits})
        engine_guard(go, report, "R7.5", ikey)


def c07_finalize(report, cfg, only=None, positions=None):
    f = facts.load(cfg)
    total = 0
    for name, (bits, cols, inner) in HASHERS.items():
        if only and name != only:
            continue
        bb = 8 * cols
        cname = "Compressor512" if cols == 8 else "Compressor1024"
        t = "groestl_aesni::%s" % name
        fin = find(f, r"^<groestl_aesni::%s as digest::fixed::FixedOutputDirty>::finalize_into_dirty$" % name)
        for p in (positions(bb) if positions else range(bb)):
            ikey = "%s::finalize pos=%d@%s" % (name, p, cfg)
            total += 1

            def go():
                bv.reset()
                it = Interp(f, MODELS, hooks=opaque_compressor_hooks(cname, cols, f))
                ht = "groestl_aesni::%s" % (inner or name)
                v = it.from_bits(bv.inp("self", it.ty.size_bits(ht)), ht)
                comp, ct, _ = by_name(it, v, ht, "compressor")
                sbits = bv.inp("state", it.ty.size_bits(ct))
                v = with_field(it, v, ht, "compressor", it.from_bits(sbits, ct))
                cnt = bv.inp("blocks", 64)
                v = with_field(it, v, ht, "block_counter", cnt)
                buf, bt, _ = by_name(it, v, ht, "buffer")
                data = bv.inp("buf", 8 * bb)
                buf = with_field(it, buf, bt, "buffer", Agg(data[8 * i:8 * i + 8] for i in range(bb)))
                buf = with_field(it, buf, bt, "pos", bv.const(p, 64))
                v = with_field(it, v, ht, "buffer", buf)
                if inner:
                    v = Agg([v])
                scell = it.new_cell(v, "hasher")
                nout = bits // 8
                _, ocell = bytes_cell(it, "out", nout)
                it.call_instance(fin, [Ptr(scell, ()), Ptr(ocell, ())])
                if filter_asserts(it, report, "R7.4", ikey):
                    return
                # specification: pad with 0x80, zeros, BE64(total blocks incl. padding); then Omega, truncated
                nb = 1 if p + 9 <= bb else 2
                count = bv.add(cnt, bv.const(nb, 64))
                stream = data[:8 * p] + bv.const(0x80, 8) + bv.const(0, 8 * (nb * bb - p - 9)) + bv.bswap(count)
                s = sbits
                for i in range(nb):
                    s = bv.ufn("G_INPUT", (s, stream[8 * bb * i:8 * bb * (i + 1)]), len(s))
                final = bv.ufn("G_FINAL", (s,), 8 * bb)
                exp = final[8 * (bb - nout):]
                got = cell_bytes(ocell)
                i = bv.first_diff(got, exp)
                if i is None:
                    report.ok("R7.4", ikey, sample={"hasher": name, "buffered": p, "padding_blocks": nb} if p in (0, bb - 9, bb - 8) else None)
                else:
                    report.violated("R7.4", ikey, "%s finalisation with %d buffered bytes: digest byte %d differs from (pad 0x80, zeros, 64-bit BE count of %d more block(s); last %d bytes of the output transformation)"
                                    % (name, p, i // 8, nb, nout), graphs=(got, exp), boundary=(it, nb + 1))
            engine_guard(go, report, "R7.4", ikey)
    return total


def c07_update(report, cfg):
    """update counts one block per compressed block (block_counter += 1 inside the closure)."""
    f = facts.load(cfg)
    total = 0
    for name, cols in (("Groestl256", 8), ("Groestl512", 16)):
        bb = 8 * cols
        cname = "Compressor512" if cols == 8 else "Compressor1024"
        ht = "groestl_aesni::%s" % name
        upd = find(f, r"^<groestl_aesni::%s as digest::Update>::update::<&\[u8\]>$" % name)
        for p in (0, 1, 17, bb - 1):
            # ... and long pieces (a threshold-based fast path would start somewhere): > 4 and > 8 blocks
            for ln in (0, 1, bb - p - 1 if bb - p - 1 > 1 else 2, bb - p, bb, 2 * bb + 3, 4 * bb + bb - 14, 8 * bb + 3):
                ikey = "%s::update pos=%d len=%d@%s" % (name, p, ln, cfg)
                total += 1

                def go():
                    bv.reset()
                    it = Interp(f, MODELS, hooks=opaque_compressor_hooks(cname, cols, f))
                    v = it.from_bits(bv.inp("self", it.ty.size_bits(ht)), ht)
                    comp, ct, _ = by_name(it, v, ht, "compressor")
                    sbits = bv.inp("state", it.ty.size_bits(ct))
                    v = with_field(it, v, ht, "compressor", it.from_bits(sbits, ct))
                    cnt = bv.inp("blocks", 64)
                    v = with_field(it, v, ht, "block_counter", cnt)
                    buf, bt, _ = by_name(it, v, ht, "buffer")
                    old = bv.inp("buf", 8 * bb)
                    buf = with_field(it, buf, bt, "buffer", Agg(old[8 * i:8 * i + 8] for i in range(bb)))
                    buf = with_field(it, buf, bt, "pos", bv.const(p, 64))
                    v = with_field(it, v, ht, "buffer", buf)
                    scell = it.new_cell(v, "hasher")
                    dbits, dcell = bytes_cell(it, "data", ln)
                    it.call_instance(upd, [Ptr(scell, ()), Ptr(dcell, (), idx=0, meta=ln, ety="u8")])
                    bad = False
                    for a in it.asserts:
                        if a["kind"] == "overflow:Add" and "update" in a["inst"]:
                            continue      # block_counter += 1 beyond 2^64 blocks
                        bad = True
                    if bad or it.panics:
                        report.violated("R7.6", ikey, "operand-dependent assertion in update")
                        return
                    stream = old[:8 * p] + dbits
                    nfull = (p + ln) // bb
                    s = sbits
                    for i in range(nfull):
                        s = bv.ufn("G_INPUT", (s, stream[8 * bb * i:8 * bb * (i + 1)]), len(s))
                    v2 = scell.v
                    comp2, _, _ = by_name(it, v2, ht, "compressor")
                    cnt2, _, _ = by_name(it, v2, ht, "block_counter")
                    buf2, _, _ = by_name(it, v2, ht, "buffer")
                    pos2, _, _ = by_name(it, buf2, bt, "pos")
                    if it.to_bits(comp2, ct) != s:
                        report.violated("R7.6", ikey, "%s::update does not feed exactly the %d complete blocks of the stream to the compressor" % (name, nfull),
                                        graphs=(it.to_bits(comp2, ct), s), boundary=(it, nfull))
                    elif cnt2 != bv.add(cnt, bv.const(nfull, 64)):
                        report.violated("R7.6", ikey, "%s::update: block counter is not advanced by the number of compressed blocks (%d)" % (name, nfull),
                                        graphs=(cnt2, bv.add(cnt, bv.const(nfull, 64))))
                    elif bv.const_value(pos2) != (p + ln) - nfull * bb:
                        report.violated("R7.6", ikey, "%s::update: wrong number of buffered bytes" % name)
                    else:
                        report.ok("R7.6", ikey)
                engine_guard(go, report, "R7.6", ikey)
    return total
