"""C03 structural rules: dispatch arms (R3.2), feature adequacy (R3.3), who may call
Machine::instance (R3.2b).  The value-level part of C03 is the joined-arms value graphs."""
import re

from . import facts, graph
from .facts import short, WORKSPACE_CRATES

# rustc's x86 feature implication table restricted to what the workspace uses
IMPLIES = {
    "avx2": {"avx"}, "avx": {"sse4.2"}, "sse4.2": {"sse4.1"}, "sse4.1": {"ssse3"}, "ssse3": {"sse3"},
    "sse3": {"sse2"}, "sse2": {"sse"}, "aes": {"sse2"}, "pclmulqdq": {"sse2"}, "sse": set(),
}
BASELINE = {"sse", "sse2"}          # x86-64 baseline


def closure_features(fs):
    out = set(fs)
    work = list(fs)
    while work:
        x = work.pop()
        for y in IMPLIES.get(x, ()):
            if y not in out:
                out.add(y)
                work.append(y)
    return out


def dispatchers(f):
    """Instances that call std_detect feature detection (run-time dispatchers)."""
    out = []
    for k, inst in f.instances.items():
        if not inst.get("body") or f.defs[inst["def"]]["krate"] not in WORKSPACE_CRATES:
            continue
        if any("callee" in t and t["callee"]["def"].startswith("std_detect::detect::") for _, t in graph.call_sites(inst)):
            out.append(k)
    return sorted(out)


def detection_guards(f, key):
    """For a dispatcher body: {call block index -> set of features whose detection dominates it (true edge)}"""
    inst = f.instances[key]
    body = inst["body"]
    dom = graph.dominators(body)
    consts = graph.local_consts(body)
    # blocks that are the true-successor of a switch on a detection result
    true_succ = {}
    for i, b in enumerate(body["blocks"]):
        t = b["term"]
        if t["k"] == "call" and "callee" in t and t["callee"]["def"].startswith("std_detect::detect::") and t["target"] is not None:
            feat = t["callee"]["def"].rsplit("::", 1)[1].replace("_", ".") if "sse4" in t["callee"]["def"] else t["callee"]["def"].rsplit("::", 1)[1]
            dest = t["dest"]["local"]
            nxt = body["blocks"][t["target"]]["term"]
            if nxt["k"] == "switch":
                pl = nxt["discr"].get("copy") or nxt["discr"].get("move")
                if pl and pl["local"] == dest and nxt["cases"] and int(nxt["cases"][0][0]) == 0:
                    true_succ.setdefault(nxt["otherwise"], set()).add(feat)
    guards = {}
    for i in graph.reachable_blocks(body):
        t = body["blocks"][i]["term"]
        if t["k"] == "call":
            g = set()
            for d in dom.get(i, ()):
                g |= true_succ.get(d, set())
            guards[i] = g
    return guards


def required_features(f, key, memo, stop=None):
    """Union of target features of every function reachable from key (mono closure); nested
    run-time dispatchers are not entered: their arms are guarded by their own detection."""
    if key in memo:
        return memo[key]
    memo[key] = set()
    req = set()
    for k in graph.closure(f, [key], stop=stop):
        if stop and stop(k) and k != key:
            continue
        ex, allf = graph.target_features(f, k)
        req |= ex
    memo[key] = req
    return req


def machines(f):
    return {r["machine"] for r in f.vocab}


def is_arm(f, ce):
    """A dispatch arm: a workspace function with its own #[target_feature] set, called from a dispatcher."""
    if not ce or not ce.get("inst") or ce["inst"] not in f.instances:
        return False
    inst = f.instances[ce["inst"]]
    if not inst.get("body") or f.defs[inst["def"]]["krate"] not in WORKSPACE_CRATES:
        return False
    ex, _ = graph.target_features(f, ce["inst"])
    return bool(ex)


def is_machine_body(f, ce):
    """The Machine-generic implementation body an arm forwards to: a workspace function instantiated
    with a Machine type as a generic argument and taking the machine value first."""
    if not ce or not ce.get("inst") or ce["inst"] not in f.instances:
        return False
    inst = f.instances[ce["inst"]]
    if not inst.get("body") or f.defs[inst["def"]]["krate"] not in WORKSPACE_CRATES:
        return False
    ms = machines(f)
    return any(g.get("ty") in ms for g in inst.get("generic_args", []))


def c03_arms(report, cfg):
    """R3.3 feature adequacy and R3.2 positional forwarding for every arm of every ppv-lite86 dispatch site."""
    f = facts.load(cfg)
    memo = {}
    nsites = narms = 0
    all_bodies = set()
    dset = set(dispatchers(f))
    stop = lambda k: k in dset
    for dk in dispatchers(f):
        if f.defs[f.instances[dk]["def"]]["krate"] == "groestl_aesni":
            continue            # Groestl has its own dispatcher (not a ppv-lite86 backend; see DESIGN)
        nsites += 1
        guards = detection_guards(f, dk)
        body = f.instances[dk]["body"]
        fn_impls = set()
        for i, t in graph.call_sites(f.instances[dk]):
            ce = t.get("callee")
            if not is_arm(f, ce):
                continue
            arm = ce["inst"]
            narms += 1
            akey = "%s@%s" % (short(arm, 120), cfg)
            ex, allf = graph.target_features(f, arm)
            enabled = closure_features(ex) | BASELINE
            detected = closure_features(guards.get(i, set())) | BASELINE
            req = required_features(f, arm, memo, stop)
            if not req <= enabled:
                report.violated("R3.3", akey + ":required", "%s executes instructions needing %s but enables only %s"
                                % (short(arm, 100), sorted(req - enabled), sorted(ex)))
            elif not closure_features(ex) <= detected:
                report.violated("R3.3", akey + ":detected", "%s enables %s but is called after detecting only %s"
                                % (short(arm, 100), sorted(ex), sorted(guards.get(i, set()))))
            else:
                report.ok("R3.3", akey, sample={"arm": short(arm, 100), "enabled": sorted(ex), "detected": sorted(guards.get(i, set())),
                                                "required": sorted(req)} if narms <= 3 else None)
            # R3.2: the arm forwards its parameters positionally to fn_impl
            ab = f.instances[arm]["body"]
            nargs = ab["arg_count"]
            dm = _def_map(ab)
            for _, t2 in graph.call_sites(f.instances[arm]):
                ce2 = t2.get("callee")
                if is_machine_body(f, ce2):
                    fn_impls.add(f.instances[ce2["inst"]]["def"])
                    all_bodies.add(f.instances[ce2["inst"]]["def"])
                    srcs = [_trace_param(ab, dm, a) for a in t2["args"][1:]]
                    if srcs != list(range(1, nargs + 1)):
                        report.violated("R3.2", akey + ":forwarding", "%s passes its parameters to fn_impl as %s instead of positionally (1..%d)"
                                        % (short(arm, 100), srcs, nargs))
                    else:
                        report.ok("R3.2", akey + ":forwarding")
        if len(fn_impls) > 1:
            report.violated("R3.2", "%s:bodies@%s" % (short(dk), cfg), "arms of %s call different implementation bodies %s" % (short(dk), sorted(fn_impls)))
        elif fn_impls:
            report.ok("R3.2", "%s: one fn_impl body for all arms@%s" % (short(dk, 100), cfg))
    # R3.6 consistency of the two discoveries: every Machine-generic body instantiated for several
    # backends (found from the instance graph alone) is the body of exactly one recognised site
    multi = {}
    ms = machines(f)
    for k, inst in f.instances.items():
        if not inst.get("body") or f.defs[inst["def"]]["krate"] not in WORKSPACE_CRATES or f.defs[inst["def"]]["krate"] == "ppv_lite86":
            continue
        ga = inst.get("generic_args", [])
        if ga and ga[0].get("ty") in ms:
            multi.setdefault(inst["def"], set()).add(ga[0]["ty"])
    # a multi-backend body is a dispatch root when a workspace function that is NOT itself generic over a
    # Machine calls it (an arm does; helpers are only reached from generic code, closures or fn-pointer shims)
    roots = set()
    for k, inst in f.instances.items():
        if not inst.get("body") or f.defs[inst["def"]]["krate"] not in WORKSPACE_CRATES:
            continue
        ga = inst.get("generic_args", [])
        if any(g.get("ty") in ms for g in ga):
            continue
        for _, t in graph.call_sites(inst):
            ce = t.get("callee")
            if ce and ce.get("inst") in f.instances:
                d = f.instances[ce["inst"]]["def"]
                if len(multi.get(d, ())) >= 2:
                    roots.add(d)
    missing = sorted(roots - all_bodies)
    for d in missing:
        report.violated("R3.6", "unrecognised-dispatch:%s@%s" % (short(d, 120), cfg),
                        "%s is instantiated for %d backends but is not the body of any recognised run-time dispatch site"
                        % (short(d, 120), len(multi[d])))
    if not missing:
        report.ok("R3.6", "%d multi-backend bodies = bodies of the %d recognised sites@%s" % (len(roots), nsites, cfg))
    return nsites, narms


def _def_map(body):
    m = {}
    for b in body["blocks"]:
        for st in b["stmts"]:
            if st["k"] == "assign" and not st["place"]["proj"]:
                m.setdefault(st["place"]["local"], []).append(st["rv"])
    return m


def _trace_param(body, dm, op, depth=0):
    """Which parameter local an operand is a (re)borrow / copy of, else None."""
    pl = op.get("copy") or op.get("move")
    if pl is None or depth > 6:
        return None
    l = pl["local"]
    if 1 <= l <= body["arg_count"] and all(e["k"] == "deref" for e in pl["proj"]):
        return l
    if pl["proj"]:
        return None
    defs = dm.get(l, [])
    if len(defs) != 1:
        return None
    rv = defs[0]
    if rv["k"] == "use":
        return _trace_param(body, dm, rv["op"], depth + 1)
    if rv["k"] in ("ref", "rawptr"):
        p2 = rv["place"]
        if all(e["k"] == "deref" for e in p2["proj"]):
            return _trace_param(body, dm, {"copy": {"local": p2["local"], "proj": []}}, depth + 1)
    return None


def c03_instance_callers(report, cfg):
    """Machine::instance() is called only from dispatch arms / dispatchers (and nowhere else in workspace code)."""
    f = facts.load(cfg)
    n = 0
    for k, inst in f.instances.items():
        if not inst.get("body"):
            continue
        kr = f.defs[inst["def"]]["krate"]
        if kr not in WORKSPACE_CRATES:
            continue
        for _, t in graph.call_sites(inst):
            ce = t.get("callee")
            if ce and ce.get("inst") and re.search(r" as ppv_lite86::types::Machine>::instance$", ce["inst"]):
                n += 1
                ex, _ = graph.target_features(f, k)
                ok = bool(ex) or any(is_machine_body(f, t2.get("callee")) for _, t2 in graph.call_sites(inst))
                if ok:
                    report.ok("R3.2", "instance() caller %s@%s" % (short(k, 100), cfg))
                else:
                    report.violated("R3.2", "instance-caller:%s@%s" % (short(k, 120), cfg),
                                    "%s obtains a Machine with Machine::instance() outside a dispatch arm: nothing ties the machine type to detected CPU features" % short(k, 120))
    return n
