"""C09 (encryption equals the Skein 1.3 definition) and C10 (decrypt o encrypt = id both ways),
both as identities of normalised value graphs over symbolic key, tweak and block."""
import os

from . import bv, facts
from .interp import Interp, Undecided, Diverge, Agg, Ptr
from .models import M as MODELS
from spec import threefish as TF

SIZES = {"Threefish256": 4, "Threefish512": 8, "Threefish1024": 16}


def bytes_cell(it, name, nbytes):
    bits = bv.inp(name, nbytes * 8)
    cell = it.new_cell(Agg(bits[8 * i:8 * i + 8] for i in range(nbytes)), name)
    return bits, cell


def cell_bytes(cell):
    return bv.concat(cell.v.f)


def find(f, pat):
    r = f.find(pat)
    if len(r) != 1:
        raise Undecided("anchor %r matches %d instances" % (pat, len(r)))
    return r[0]


FAIL_FAST = 4


def engine_guard(fn, report, rule, key):
    # a rule that already has several definite violations in this job is decided: further instances
    # would only add run time (a change that bypasses a modular boundary makes every instance expensive)
    if sum(1 for v in getattr(report, "violations", ()) if v["rule"] == rule) >= FAIL_FAST:
        report.extra["instances_skipped_after_%d_violations" % FAIL_FAST] = report.extra.get("instances_skipped_after_%d_violations" % FAIL_FAST, 0) + 1
        return None
    import time as _t
    budget = float(os.environ.get("VERIF_JOB_BUDGET", "0")) or (400.0 if getattr(report, "tier", "quick") == "quick" else 4000.0)
    if _t.time() - getattr(report, "t0", _t.time()) > budget:
        # fail closed instead of running for hours on a tree where every instance became expensive
        report.undecide(rule, key, "job time budget of %ds exhausted before this instance" % budget)
        return None
    try:
        return fn()
    except Undecided as e:
        report.undecide(rule, key, str(e))
    except Diverge as d:
        report.violated(rule, key, "panics for every input: %s" % (d.site,))
    except (AssertionError, TypeError, KeyError, IndexError, AttributeError, ValueError) as e:
        import traceback
        tb = traceback.extract_tb(e.__traceback__)[-1]
        report.undecide(rule, key, "engine error %s: %s at %s:%d" % (type(e).__name__, e, tb.filename.split("/")[-1], tb.lineno))
    return None


def assert_audit(it, report, rule, key):
    """Non-constant assertions met while building the graph are possible panics."""
    bad = False
    for a in it.asserts:
        report.violated(rule, "%s:%s" % (key, a["kind"]),
                        "%s assertion in %s depends on input values" % (a["kind"], a["inst"]))
        bad = True
    for p in it.panics:
        report.violated(rule, "%s:panic" % key, "conditional panic %s" % (p["site"],))
        bad = True
    return bad


def c09(report, cfg):
    f = facts.load(cfg)
    for name, nw in SIZES.items():
        key = "%s@%s" % (name, cfg)

        def go():
            bv.reset()
            it = Interp(f, MODELS)
            nb = nw * 8
            kbits, kcell = bytes_cell(it, "key", nb)
            t0, t1 = bv.inp("t0", 64), bv.inp("t1", 64)
            wt = find(f, r"^threefish_cipher::%s::with_tweak$" % name)
            enc = find(f, r"^<threefish_cipher::%s as cipher::block::BlockEncrypt>::encrypt_block$" % name)
            fish = it.call_instance(wt, [Ptr(kcell, ()), t0, t1])
            fcell = it.new_cell(fish, "fish")
            bbits, bcell = bytes_cell(it, "block", nb)
            it.call_instance(enc, [Ptr(fcell, ()), Ptr(bcell, ())])
            got = cell_bytes(bcell)
            exp = TF.encrypt(nw, kbits, t0, t1, bbits)
            if assert_audit(it, report, "R9.1", key):
                return
            i = bv.first_diff(got, exp)
            if i is None:
                report.ok("R9.1", key, sample={"cipher": name, "config": cfg, "words": nw,
                                               "rounds": TF.ROUNDS[nw], "graph_atoms": bv.n_atoms()})
            else:
                report.violated("R9.1", key,
                                "%s: ciphertext byte %d bit %d differs from Skein 1.3 Threefish (first difference; got %s, expected %s)"
                                % (name, i // 8, i % 8, bv.show_bit(got[i], 3)[:300], bv.show_bit(exp[i], 3)[:300]), graphs=(got, exp))
        engine_guard(go, report, "R9.1", key)
        # new() == with_tweak(key, 0, 0)
        nkey = "%s::new@%s" % (name, cfg)

        def go_new():
            # behavioural, not representational: new(key) followed by encrypt_block = Threefish with tweak (0, 0)
            bv.reset()
            it = Interp(f, MODELS)
            nb = nw * 8
            kbits, kcell = bytes_cell(it, "key", nb)
            nw_inst = find(f, r"^<threefish_cipher::%s as cipher::block::NewBlockCipher>::new$" % name)
            enc = find(f, r"^<threefish_cipher::%s as cipher::block::BlockEncrypt>::encrypt_block$" % name)
            fish = it.call_instance(nw_inst, [Ptr(kcell, ())])
            fcell = it.new_cell(fish, "fish")
            bbits, bcell = bytes_cell(it, "block", nb)
            it.call_instance(enc, [Ptr(fcell, ()), Ptr(bcell, ())])
            got = cell_bytes(bcell)
            exp = TF.encrypt(nw, kbits, bv.const(0, 64), bv.const(0, 64), bbits)
            if assert_audit(it, report, "R9.2", nkey):
                return
            if got == exp:
                report.ok("R9.2", nkey)
            else:
                report.violated("R9.2", nkey, "%s::new(key) does not give the cipher with tweak (0,0): encryption differs from Skein 1.3 Threefish" % name, graphs=(got, exp))
        engine_guard(go_new, report, "R9.2", nkey)


def c10(report, cfg):
    f = facts.load(cfg)
    for name, nw in SIZES.items():
        for order in ("dec(enc)", "enc(dec)"):
            key = "%s:%s@%s" % (name, order, cfg)

            def go():
                bv.reset()
                it = Interp(f, MODELS)
                nb = nw * 8
                enc = find(f, r"^<threefish_cipher::%s as cipher::block::BlockEncrypt>::encrypt_block$" % name)
                dec = find(f, r"^<threefish_cipher::%s as cipher::block::BlockDecrypt>::decrypt_block$" % name)
                sty = "threefish_cipher::%s" % name
                fish = it.from_bits(bv.inp("sk", it.ty.size_bits(sty)), sty)
                fcell = it.new_cell(fish, "fish")
                bbits, bcell = bytes_cell(it, "block", nb)
                first, second = (enc, dec) if order == "dec(enc)" else (dec, enc)
                it.call_instance(first, [Ptr(fcell, ()), Ptr(bcell, ())])
                mid = cell_bytes(bcell)
                it.call_instance(second, [Ptr(fcell, ()), Ptr(bcell, ())])
                got = cell_bytes(bcell)
                if assert_audit(it, report, "R10.1", key):
                    return
                if mid == bbits:
                    report.violated("R10.1", key, "%s: the first transformation is the identity" % name)
                    return
                i = bv.first_diff(got, bbits)
                if i is None:
                    report.ok("R10.1", key, sample={"cipher": name, "order": order, "config": cfg, "subkeys": "symbolic"})
                else:
                    report.violated("R10.1", key, "%s %s: byte %d bit %d is %s, not the original block bit"
                                    % (name, order, i // 8, i % 8, bv.show_bit(got[i], 3)[:300]), graphs=(got, bbits))
            engine_guard(go, report, "R10.1", key)


def _slice_methods(f, name):
    """The other ways the cipher traits offer to run the cipher on blocks: (label, instance, kind)."""
    out = []
    for lab, tr, meth, kind in (("encrypt_blocks", "BlockEncrypt", "encrypt_blocks", "slice"), ("decrypt_blocks", "BlockDecrypt", "decrypt_blocks", "slice"),
                                ("encrypt_par_blocks", "BlockEncrypt", "encrypt_par_blocks", "par"), ("decrypt_par_blocks", "BlockDecrypt", "decrypt_par_blocks", "par")):
        ks = f.find(r"^<threefish_cipher::%s as cipher::block::%s>::%s$" % (name, tr, meth))
        if len(ks) == 1:
            out.append((lab, ks[0], kind))
    return out


def c10_slices(report, cfg):
    """R9.3 / R10.2: the slice and par-block methods of BlockEncrypt / BlockDecrypt act block by block exactly
    as encrypt_block / decrypt_block (so the inverse relation and the conformance carry over to them)."""
    f = facts.load(cfg)
    n = 0
    for name, nw in SIZES.items():
        nb = nw * 8
        meths = _slice_methods(f, name)
        if len(meths) < 4:
            report.undecide("R10.2", "%s:slice methods@%s" % (name, cfg), "expected encrypt/decrypt_blocks and _par_blocks instances, found %s" % [m[0] for m in meths])
            continue
        for lab, key_m, kind in meths:
            ikey = "%s::%s@%s" % (name, lab, cfg)
            n += 1

            def go():
                bv.reset()
                it = Interp(f, MODELS)
                single = find(f, r"^<threefish_cipher::%s as cipher::block::Block%s>::%s_block$" % (name, "Encrypt" if lab.startswith("enc") else "Decrypt", lab[:7]))
                sty = "threefish_cipher::%s" % name
                fish = it.from_bits(bv.inp("sk", it.ty.size_bits(sty)), sty)
                fcell = it.new_cell(fish, "fish")
                nblk = 2 if kind == "slice" else 1
                bbits, bcell = bytes_cell(it, "blocks", nb * nblk)
                argty = it.ty.get(f.instances[key_m]["body"]["locals"][2])["pointee"]
                if kind == "slice":
                    arg = Ptr(bcell, (), idx=0, meta=nblk, ety="u8", vty=it.ty.get(argty)["elem"])
                else:
                    arg = Ptr(bcell, (), idx=0, meta=None, ety="u8", vty=argty)
                it.call_instance(key_m, [Ptr(fcell, ()), arg])
                got = cell_bytes(bcell)
                if assert_audit(it, report, "R10.2", ikey):
                    return
                exp = ()
                for i in range(nblk):
                    _, c1 = bytes_cell(it, "b%d" % i, nb)
                    c1.v = Agg(bbits[8 * (nb * i + j):8 * (nb * i + j) + 8] for j in range(nb))
                    it.call_instance(single, [Ptr(fcell, ()), Ptr(c1, ())])
                    exp += cell_bytes(c1)
                i = bv.first_diff(got, exp)
                if i is None:
                    report.ok("R10.2", ikey, sample={"cipher": name, "method": lab} if name == "Threefish512" else None)
                else:
                    report.violated("R10.2", ikey, "%s::%s does not act on block %d as %s_block does (byte %d)" % (name, lab, i // (8 * nb), lab[:7], (i // 8) % nb),
                                    graphs=(got, exp))
            engine_guard(go, report, "R10.2", ikey)
    return n


def only_beyond_format_limit(a, top_inputs, trials=40, seed=5):
    """Semantic filter for a recorded assertion (dict with 'cond' = the bit that must hold): True when no
    assignment tried makes it fail while every top counter word (the most significant word of a length /
    block counter) has its two highest bits clear - i.e. the assertion guards the format limit only.
    Boundary assignments (all other inputs all-ones / zero) are included, so a checked addition on a LOW
    counter word or on a length is still reported."""
    import random
    fail = a["cond"] ^ bv.ONE
    sup = bv.support((fail,))
    widths = {}
    for n, i in sup:
        widths[n] = max(widths.get(n, 0), i + 1)
    if not any(n in widths for n in top_inputs):
        return False
    rnd = random.Random(seed)
    cases = []
    for mode in ("ones", "zero", "rand"):
        for _ in range(1 if mode != "rand" else trials):
            env = {}
            for n, w in widths.items():
                v = (1 << w) - 1 if mode == "ones" else (0 if mode == "zero" else rnd.choice([rnd.getrandbits(w), (1 << w) - 1, (1 << w) - 1 - rnd.getrandbits(3)]))
                if n in top_inputs:
                    clear = top_inputs[n] if isinstance(top_inputs, dict) else 2
                    v &= (1 << (w - clear)) - 1 if w > clear else 0
                env[n] = v
            cases.append(env)
    for env in cases:
        ev = bv.Evaluator(env, bv._PrfFns())
        if ev.bit(fail):
            return False
    return True
