"""ChaCha value-graph rules: C14 (block API), C15 (stream parameters / stream equality),
C01 (state construction, per-alias keystream), bounded-history rule for C02/C11."""
import re

from . import bv, facts
from .bv import ZERO, ONE
from .interp import Interp, Undecided, Diverge, Agg, Enum, Ptr
from .models import M as MODELS, model
from .check_threefish import engine_guard, find, bytes_cell, cell_bytes
from spec import chacha as CH


@model(*["std_detect::detect::arch::x86::__is_feature_detected::" + x
         for x in ("avx2", "avx", "sse4_1", "ssse3", "sse2", "aes", "sse3", "sse4_2", "sse")])
def _detected(it, key, a, ce):
    feat = key.rsplit("::", 1)[1]
    return (bv.abit(("in", "cpu." + feat, 0)),)


CHACHA_TY = "c2_chacha::guts::ChaCha"


def new_interp(f):
    return Interp(f, MODELS)


def sym_state(it):
    """Symbolic ChaCha state; returns (cell, b, c, d) with b,c,d flat 128-bit vectors."""
    b, c, d = bv.inp("b", 128), bv.inp("c", 128), bv.inp("d", 128)
    cell = it.new_cell(Agg([b, c, d]), "chacha")
    # check field order of the struct
    names = [fl["name"] for fl in it.ty.get(CHACHA_TY)["variants"][0]["fields"]]
    if names != ["b", "c", "d"]:
        raise Undecided("ChaCha fields are %s" % names)
    return cell, b, c, d


def state_rows(it, v):
    v = it.as_agg(v, CHACHA_TY)
    return [it.to_bits(x, "ppv_lite86::x86_64::vec128_storage") if not isinstance(x, tuple) else x for x in v.f]


def audit(it, report, rule, key, allow_kinds=()):
    bad = False
    seen = set()
    for a in it.asserts:
        k = (a["inst"], a["kind"])
        if k in seen:
            continue
        seen.add(k)
        report.violated(rule, "%s:%s:%s" % (key, short_inst(a["inst"]), a["kind"]),
                        "%s check in %s (%s:%s) can fail for some inputs: its condition depends on operand values (%s); debug builds panic"
                        % (a["kind"], short_inst(a["inst"]), (a.get("span") or {}).get("file", "?").replace("/repo/", ""),
                           (a.get("span") or {}).get("line", "?"), bv.show_bit(a["cond"], 1)))
        bad = True
    for p in it.panics:
        report.violated(rule, "%s:panic" % key, "conditional panic %s" % (p["site"],))
        bad = True
    return bad


def short_inst(k):
    k = re.sub(r"::<.*$", "", k)
    return k


def c14(report, cfg, drounds_list, collect=None):
    f = facts.load(cfg)
    refill4 = find(f, r"^c2_chacha::guts::ChaCha::refill4$")
    refill = find(f, r"^c2_chacha::guts::ChaCha::refill$")
    for dr in drounds_list:
        # ---- wide
        key = "refill4:drounds=%d@%s" % (dr, cfg)

        def wide():
            bv.reset()
            it = new_interp(f)
            cell, b, c, d = sym_state(it)
            old, ocell = bytes_cell(it, "old", 256)
            it.call_instance(refill4, [Ptr(cell, ()), bv.const(dr, 32), Ptr(ocell, ())])
            if audit(it, report, "R14.1", key):
                return
            got = cell_bytes(ocell)
            exp = bv.concat(CH.block_at(b, c, d, i, dr) for i in range(4))
            i = bv.first_diff(got, exp)
            if i is not None:
                report.violated("R14.1", key, "refill4: output byte %d (block %d, word %d) differs from the ChaCha block function at counter+%d: got bit %s"
                                % (i // 8, i // 512, (i % 512) // 32, i // 512, bv.show_bit(got[i], 2)[:200]), graphs=(got, exp))
                return
            rows = state_rows(it, cell.v)
            expd = bv.add(d[:64], bv.const(4, 64)) + d[64:]
            if rows[0] != b or rows[1] != c or rows[2] != expd:
                report.violated("R14.1", key + ":state", "refill4 leaves a state other than (key, counter+4 as 64-bit, stream id)",
                                graphs=(bv.concat(rows), b + c + expd))
                return
            report.ok("R14.1", key, sample={"fn": "refill4", "drounds": dr, "config": cfg, "atoms": bv.n_atoms()})
        engine_guard(wide, report, "R14.1", key)
        # ---- narrow
        nkey = "refill:drounds=%d@%s" % (dr, cfg)

        def narrow():
            bv.reset()
            it = new_interp(f)
            cell, b, c, d = sym_state(it)
            old, ocell = bytes_cell(it, "old", 64)
            it.call_instance(refill, [Ptr(cell, ()), bv.const(dr, 32), Ptr(ocell, ())])
            bad = audit(it, report, "R14.2", nkey)
            got = cell_bytes(ocell)
            exp = CH.block_at(b, c, d, 0, dr)
            i = bv.first_diff(got, exp)
            if i is not None:
                report.violated("R14.2", nkey, "refill: output byte %d differs from the ChaCha block function: got bit %s"
                                % (i // 8, bv.show_bit(got[i], 2)[:200]), graphs=(got, exp))
                return
            rows = state_rows(it, cell.v)
            expd = bv.add(d[:64], bv.const(1, 64)) + d[64:]
            if rows[0] != b or rows[1] != c or rows[2] != expd:
                report.violated("R14.2", nkey + ":state", "refill leaves a state other than (key, counter+1 as 64-bit, stream id)",
                                graphs=(bv.concat(rows), b + c + expd))
                return
            if not bad:
                report.ok("R14.2", nkey)
        engine_guard(narrow, report, "R14.2", nkey)
        # ---- four narrow refills == one wide refill (outputs and final state), directly
        ekey = "4xrefill=refill4:drounds=%d@%s" % (dr, cfg)

        def equal():
            bv.reset()
            it = new_interp(f)
            cell, b, c, d = sym_state(it)
            cell2 = it.new_cell(cell.v, "chacha2")
            old, ocell = bytes_cell(it, "old", 256)
            it.call_instance(refill4, [Ptr(cell, ()), bv.const(dr, 32), Ptr(ocell, ())])
            outs = []
            for i in range(4):
                o1, c1 = bytes_cell(it, "o%d" % i, 64)
                it.call_instance(refill, [Ptr(cell2, ()), bv.const(dr, 32), Ptr(c1, ())])
                outs.append(cell_bytes(c1))
            if cell_bytes(ocell) != bv.concat(outs):
                report.violated("R14.3", ekey, "refill4 output differs from four consecutive refill outputs", graphs=(cell_bytes(ocell), bv.concat(outs)))
            elif state_rows(it, cell.v) != state_rows(it, cell2.v):
                report.violated("R14.3", ekey, "state after refill4 differs from the state after four refills",
                                graphs=(bv.concat(state_rows(it, cell.v)), bv.concat(state_rows(it, cell2.v))))
            else:
                report.ok("R14.3", ekey)
        engine_guard(equal, report, "R14.3", ekey)


def c15(report, cfg):
    f = facts.load(cfg)
    setp = find(f, r"^c2_chacha::guts::ChaCha::set_stream_param$")
    getp = find(f, r"^c2_chacha::guts::ChaCha::get_stream_param$")
    for p in (0, 1):
        key = "set/get param %d@%s" % (p, cfg)

        def go():
            bv.reset()
            it = new_interp(f)
            cell, b, c, d = sym_state(it)
            v = bv.inp("v", 64)
            before = it.call_instance(getp, [Ptr(cell, ()), bv.const(p, 32)])
            if before != d[64 * p:64 * p + 64]:
                report.violated("R15.1", key + ":get", "get_stream_param(%d) is not words %d,%d of d" % (p, 2 * p, 2 * p + 1), graphs=(before, d[64 * p:64 * p + 64]))
                return
            it.call_instance(setp, [Ptr(cell, ()), bv.const(p, 32), v])
            if audit(it, report, "R15.1", key):
                return
            rows = state_rows(it, cell.v)
            expd = list(d)
            expd[64 * p:64 * p + 64] = v
            if rows[0] != b or rows[1] != c or rows[2] != tuple(expd):
                report.violated("R15.1", key, "set_stream_param(%d, v) does not yield (key unchanged, d with only words %d,%d replaced by v)" % (p, 2 * p, 2 * p + 1),
                                graphs=(bv.concat(rows), b + c + tuple(expd)))
                return
            after = it.call_instance(getp, [Ptr(cell, ()), bv.const(p, 32)])
            other = it.call_instance(getp, [Ptr(cell, ()), bv.const(1 - p, 32)])
            if after != v or other != d[64 * (1 - p):64 * (1 - p) + 64]:
                report.violated("R15.1", key + ":roundtrip", "get after set does not return v / disturbs the other parameter",
                                graphs=(after + other, v + d[64 * (1 - p):64 * (1 - p) + 64]))
                return
            report.ok("R15.1", key, sample={"param": p, "config": cfg})
        engine_guard(go, report, "R15.1", key)
    for name, words in (("stream32_eq", (1, 2, 3)), ("stream64_eq", (2, 3))):
        key = "%s@%s" % (name, cfg)

        def eq():
            bv.reset()
            it = new_interp(f)
            inst = find(f, r"^c2_chacha::guts::ChaCha::%s$" % name)
            cell, b, c, d = sym_state(it)
            b2, c2, d2 = bv.inp("b2", 128), bv.inp("c2", 128), bv.inp("d2", 128)
            cell2 = it.new_cell(Agg([b2, c2, d2]), "rhs")
            r = it.call_instance(inst, [Ptr(cell, ()), Ptr(cell2, ())])
            if audit(it, report, "R15.2", key):
                return
            bits = []
            for x, y in ((b, b2), (c, c2)):
                bits.extend(p ^ q ^ ONE for p, q in zip(x, y))
            for wi in words:
                bits.extend(p ^ q ^ ONE for p, q in zip(d[32 * wi:32 * wi + 32], d2[32 * wi:32 * wi + 32]))
            exp = bv.band_n(bits)
            if r[0] == exp:
                report.ok("R15.2", key, sample={"predicate": name, "compared": "b, c, d words %s" % (words,)})
            else:
                got_ops = _conj_inputs(r[0])
                exp_ops = _conj_inputs(exp)
                report.violated("R15.2", key, "%s is not the conjunction of equality of key rows and d words %s; compared bits missing: %s, extra: %s"
                                % (name, words, sorted(exp_ops - got_ops)[:6], sorted(got_ops - exp_ops)[:6]), graphs=(r, (exp,)))
        engine_guard(eq, report, "R15.2", key)


def _conj_inputs(bit):
    s = set()
    for (n, i) in bv.support((bit,)):
        s.add("%s[%d]" % (n.rstrip("2"), i))
    return s


# ------------------------------------------------------------------------------------ C01

ALIASES = {
    # name: (nonce bytes, double rounds, is X)
    "ChaCha8": (8, 4, False), "ChaCha12": (8, 6, False), "ChaCha20": (8, 10, False), "Ietf": (12, 10, False),
    "XChaCha8": (24, 4, True), "XChaCha12": (24, 6, True), "XChaCha20": (24, 10, True),
}


def alias_type(f, name):
    nonce, dr, isx = ALIASES[name]
    cands = []
    for k in f.types:
        if k.startswith("c2_chacha::rustcrypto_impl::ChaChaAny<"):
            args = f.types[k]["args"]
            if facts.typenum_value(args[0]) == nonce and facts.typenum_value(args[1]) == dr and args[2].endswith("::X") == isx:
                cands.append(k)
    if len(cands) != 1:
        raise Undecided("alias %s: %d candidate types" % (name, len(cands)))
    return cands[0]


class Msg(str):
    """A finding text that carries the two differing value graphs (for the witness search)."""
    def __new__(cls, text, graphs=None):
        o = str.__new__(cls, text)
        o.graphs = graphs
        return o


def field(it, v, t, name):
    d = it.ty.get(t)
    for i, fl in enumerate(d["variants"][0]["fields"]):
        if fl["name"] == name:
            v = it.as_agg(v, t)
            return v.f[i], fl["ty"]
    raise Undecided("no field %s in %s" % (name, t))


def field_of_type(it, v, t, want):
    """The unique field of struct t whose type is `want` (private field names are not part of any
    property, so they are not used as anchors)."""
    d = it.ty.get(t)
    hits = [(i, fl) for i, fl in enumerate(d["variants"][0]["fields"]) if fl["ty"] == want]
    if len(hits) != 1:
        raise Undecided("%d fields of type %s in %s" % (len(hits), want, t))
    i, fl = hits[0]
    return it.as_agg(v, t).f[i], fl["ty"]


def core_state(it, cell, t):
    """ChaChaAny -> its buffer (the only field that is not a marker) -> the ChaCha block-function state."""
    d = it.ty.get(t)
    big = [(i, fl) for i, fl in enumerate(d["variants"][0]["fields"]) if it.ty.size_bits(fl["ty"]) > 0]
    if len(big) != 1:
        raise Undecided("%d non-marker fields in %s" % (len(big), t))
    i, fl = big[0]
    buf, bt = it.as_agg(cell.v, t).f[i], fl["ty"]
    if bt == CHACHA_TY:
        return buf, bt
    return field_of_type(it, buf, bt, CHACHA_TY)


def expected_init(name, kbits, nbits):
    nonce, dr, isx = ALIASES[name]
    kw = CH.words32(kbits)
    nw = CH.words32(nbits)
    z = bv.const(0, 32)
    if not isx:
        b, c = bv.concat(kw[0:4]), bv.concat(kw[4:8])
        d = bv.concat([z, z, nw[0], nw[1]]) if nonce == 8 else bv.concat([z, nw[0], nw[1], nw[2]])
    else:
        sub = CH.hchacha(kw, nw[0:4], dr)
        b, c = bv.concat(sub[0:4]), bv.concat(sub[4:8])
        d = bv.concat([z, z, nw[4], nw[5]])
    return b, c, d


def make_cipher(it, f, name):
    """Evaluate NewCipher::new for alias `name` on symbolic key/nonce; -> (cell, type, kbits, nbits)."""
    nonce, dr, isx = ALIASES[name]
    t = alias_type(f, name)
    new = find(f, r"^<%s as cipher::common::NewCipher>::new$" % re.escape(t))
    kbits, kcell = bytes_cell(it, "key", 32)
    nbits, ncell = bytes_cell(it, "nonce", nonce)
    v = it.call_instance(new, [Ptr(kcell, ()), Ptr(ncell, ())])
    return it.new_cell(v, "cipher"), t, kbits, nbits


def c01_new(report, cfg):
    f = facts.load(cfg)
    for name in ALIASES:
        key = "%s::new@%s" % (name, cfg)

        def go():
            bv.reset()
            it = new_interp(f)
            nonce, dr, isx = ALIASES[name]
            cell, t, kbits, nbits = make_cipher(it, f, name)
            if audit(it, report, "R1.4", key):
                return
            st, stt = core_state(it, cell, t)
            rows = state_rows(it, st)
            eb, ec, ed = expected_init(name, kbits, nbits)
            if rows != [eb, ec, ed]:
                which = [n for n, a, b in zip("bcd", rows, (eb, ec, ed)) if a != b]
                report.violated("R1.4", key, "%s::new: state row(s) %s differ from the specified key/nonce/counter layout%s"
                                % (name, ",".join(which), " (HChaCha subkey with %d double rounds)" % dr if isx else ""),
                                graphs=(bv.concat(rows), eb + ec + ed))
                return
            report.ok("R1.4", key, sample={"alias": name, "nonce_bytes": nonce, "double_rounds": dr, "x": isx, "config": cfg})
        engine_guard(go, report, "R1.4", key)


def keystream_expected(name, kbits, nbits, start_block, nblocks):
    nonce, dr, isx = ALIASES[name]
    b, c, d = expected_init(name, kbits, nbits)
    out = []
    for i in range(nblocks):
        if nonce == 12:
            ctr = bv.add(d[:32], bv.const(start_block + i, 32))
            dd = ctr + d[32:]
            out.append(CH.block(CH.words32(b) + CH.words32(c), CH.words32(dd), dr))
        else:
            out.append(CH.block_at(b, c, d, start_block + i, dr))
    return bv.concat(out)


def run_history(it, f, name, ops, report, rule, key):
    """Evaluate a history of operations on a fresh cipher with symbolic key/nonce/data.
    ops: list of ("apply", n) / ("seek", pos).  Every processed byte must equal data ^ keystream[abs pos].
    Returns True if everything matched."""
    nonce, dr, isx = ALIASES[name]
    cell, t, kbits, nbits = make_cipher(it, f, name)
    apply_i = find(f, r"^<%s as cipher::stream::StreamCipher>::try_apply_keystream$" % re.escape(t))
    limit = (1 << 38) if nonce == 12 else (1 << 64)
    pos = 0
    n_in = 0
    ks_cache = {}
    for op in ops:
        if op[0] == "seek":
            seek_i = find(f, r"^<%s as cipher::stream::StreamCipherSeek>::try_seek::<u64>$" % re.escape(t))
            r = it.call_instance(seek_i, [Ptr(cell, ()), bv.const(op[1], 64)])
            if not (isinstance(r, Enum) and r.variant == 0):
                report.violated(rule, key, "%s: try_seek(%d) fails" % (name, op[1]))
                return False
            pos = op[1]
        else:
            n = op[1]
            n_in += 1
            dbits, dcell = bytes_cell(it, "data%d" % n_in, n)
            r = it.call_instance(apply_i, [Ptr(dcell, ()), ]) if False else \
                it.call_instance(apply_i, [Ptr(cell, ()), Ptr(dcell, (), idx=0, meta=n, ety="u8")])
            should_fail = pos + n > limit
            if not isinstance(r, Enum):
                raise Undecided("result of try_apply_keystream is %r" % (r,))
            if should_fail:
                if r.variant != 1:
                    report.violated(rule, key, "%s: request of %d bytes at position %d crosses the end of the keystream but succeeds" % (name, n, pos))
                    return False
                if cell_bytes(dcell) != dbits:
                    report.violated(rule, key, "%s: failed request at position %d modified the data" % (name, pos))
                    return False
                continue
            if r.variant != 0:
                report.violated(rule, key, "%s: request of %d bytes at position %d fails although it ends within the keystream" % (name, n, pos))
                return False
            got = cell_bytes(dcell)
            b0, b1 = pos // 64, (pos + n + 63) // 64
            ks = []
            for blk in range(b0, b1):
                if blk not in ks_cache:
                    ks_cache[blk] = keystream_expected(name, kbits, nbits, blk, 1)
                ks.append(ks_cache[blk])
            ks = bv.concat(ks)
            off = (pos - b0 * 64) * 8
            exp = bv.xor(dbits, ks[off:off + 8 * n])
            i = bv.first_diff(got, exp)
            if i is not None:
                report.violated(rule, key, "%s: byte %d of a %d-byte request at stream position %d is not data ^ keystream[%d] (history %s)"
                                % (name, i // 8, n, pos, pos + i // 8, ops), graphs=(got, exp))
                return False
            pos += n
    return True


def c01_stream(report, cfg, lengths, only=None):
    f = facts.load(cfg)
    for name in ALIASES:
        if only and name not in only:
            continue
        key = "%s keystream from position 0 lengths %s@%s" % (name, "/".join(map(str, lengths)), cfg)

        def go():
            ok = True
            for n in lengths:
                bv.reset()
                it = new_interp(f)
                ok = run_history(it, f, name, [("apply", n)], report, "R1.5", key + ":len=%d" % n) and ok
                if audit(it, report, "R1.5", key):
                    ok = False
            if ok:
                report.ok("R1.5", key, sample={"alias": name, "lengths": list(lengths), "config": cfg})
        engine_guard(go, report, "R1.5", key)


# ------------------------------------------------------------------------------------ C02 / C11

def refill_hooks():
    """Modular mode for histories: ChaCha::refill / refill4 as established by C14 - the block at the
    current 64-bit counter (uninterpreted function KS of the state rows and the round count), then
    counter + 1 (+ 4, four consecutive blocks)."""
    def one(it, key, args, callee, n):
        sp, dr, outp = args
        st = it.deref_read(sp, CHACHA_TY)
        b, c, d = state_rows(it, st)
        out = ()
        for i in range(n):
            di = bv.add(d[:64], bv.const(i, 64)) + d[64:]
            out += bv.ufn("KS", (b, c, di, dr), 512)
        nd = bv.add(d[:64], bv.const(n, 64)) + d[64:]
        it.deref_write(sp, CHACHA_TY, Agg([b, c, nd]))
        at = it.ty.get(it.ins[key]["body"]["locals"][3])["pointee"]
        it.deref_write(outp, at, it.from_bits(out, at))
        return Agg(())
    return {r"^c2_chacha::guts::ChaCha::refill$": lambda it, k, a, c: one(it, k, a, c, 1),
            r"^c2_chacha::guts::ChaCha::refill4$": lambda it, k, a, c: one(it, k, a, c, 4)}


def ks_block_modular(name, kbits, nbits, blk):
    nonce, dr, isx = ALIASES[name]
    b, c, d = expected_init(name, kbits, nbits)
    if nonce == 12:
        dd = bv.const(blk & 0xffffffff, 32) + d[32:]
    else:
        dd = bv.const(blk & ((1 << 64) - 1), 64) + d[64:]
    return bv.ufn("KS", (b, c, dd, bv.const(dr, 32)), 512)


class HistoryResult:
    def __init__(self):
        self.findings = []     # (site key, message)
        self.ok = True


def run_history_modular(f, name, ops):
    """Evaluate a history on a fresh cipher (symbolic key, nonce, data; refill modular).
    ops: ("seek", pos) / ("apply", n) / ("pos",).  Returns list of (site key, message)."""
    bv.reset()
    it = Interp(f, MODELS, hooks=refill_hooks())
    nonce, dr, isx = ALIASES[name]
    findings = []
    cell, t, kbits, nbits = make_cipher(it, f, name)
    apply_i = find(f, r"^<%s as cipher::stream::StreamCipher>::try_apply_keystream$" % re.escape(t))
    seek_i = find(f, r"^<%s as cipher::stream::StreamCipherSeek>::try_seek::<u64>$" % re.escape(t))
    pos_i = f.find(r"^<%s as cipher::stream::StreamCipherSeek>::try_current_pos::<u64>$" % re.escape(t))
    limit = (1 << 38) if nonce == 12 else (1 << 70)      # 2^32 resp. 2^64 blocks of 64 bytes
    pos = 0
    ksc = {}
    hist = " ".join("%s(%s)" % (o[0], hex(o[1]) if len(o) > 1 else "") for o in ops)

    def site_of(d):
        s = d.site
        inst = s[1] if len(s) > 1 and isinstance(s[1], str) else "?"
        return "%s:%s" % (short_inst(inst), s[0].replace("assertion ", "").replace(" fails", ""))

    for k, op in enumerate(ops):
        it.asserts = []
        try:
            if op[0] == "seek":
                r = it.call_instance(seek_i, [Ptr(cell, ()), bv.const(op[1], 64)])
                in_range = op[1] <= limit
                ok = isinstance(r, Enum) and r.variant == 0
                if in_range and not ok:
                    findings.append(("try_seek:in-range-fails", "%s: try_seek(%#x) fails although the position is within the keystream [%s]" % (name, op[1], hist)))
                    return findings
                if not in_range:
                    if ok:
                        findings.append(("try_seek:past-end-accepted", "%s: try_seek(%#x) past the end of the keystream succeeds [%s]" % (name, op[1], hist)))
                        return findings
                else:
                    pos = op[1]
            elif op[0] == "pos":
                if not pos_i:
                    findings.append(("try_current_pos:missing", "try_current_pos instance not found"))
                    return findings
                try:
                    r = it.call_instance(pos_i[0], [Ptr(cell, ())])
                except Diverge as dv:
                    findings.append(("panic:" + site_of(dv), "%s: try_current_pos panics (%s) [%s]" % (name, dv.site[2] if len(dv.site) > 2 else dv.site[0], hist)))
                    continue
                if pos >= (1 << 64):
                    if not (isinstance(r, Enum) and r.variant == 1):
                        findings.append(("try_current_pos:wrong", "%s: position %#x does not fit u64 but try_current_pos::<u64> does not fail [%s]" % (name, pos, hist)))
                    continue
                if not (isinstance(r, Enum) and r.variant == 0 and bv.const_value(r.f[0]) == pos):
                    got = bv.const_value(r.f[0]) if isinstance(r, Enum) and r.variant == 0 else "Err"
                    findings.append(("try_current_pos:wrong", "%s: try_current_pos reports %s at absolute position %#x [%s]" % (name, got if not isinstance(got, int) else hex(got), pos, hist)))
            else:
                n = op[1]
                dbits, dcell = bytes_cell(it, "data%d" % k, n)
                r = it.call_instance(apply_i, [Ptr(cell, ()), Ptr(dcell, (), idx=0, meta=n, ety="u8")])
                should_fail = pos + n > limit
                if should_fail:
                    if r.variant != 1:
                        findings.append(("apply:past-end-accepted", "%s: %d-byte request at %#x crosses the end of the keystream but succeeds [%s]" % (name, n, pos, hist)))
                        return findings
                    if cell_bytes(dcell) != dbits:
                        findings.append(("apply:failed-request-modified-data", "%s: failed request at %#x modified the data [%s]" % (name, pos, hist)))
                        return findings
                elif r.variant != 0:
                    findings.append(("apply:in-range-fails", "%s: %d-byte request at %#x fails although it ends within the keystream [%s]" % (name, n, pos, hist)))
                    return findings
                else:
                  got = cell_bytes(dcell)
                  b0, b1 = pos // 64, (pos + n + 63) // 64
                  ks = ()
                  for blk in range(b0, b1):
                      if blk not in ksc:
                          ksc[blk] = ks_block_modular(name, kbits, nbits, blk)
                      ks += ksc[blk]
                  off = (pos - b0 * 64) * 8
                  exp = bv.xor(dbits, ks[off:off + 8 * n])
                  i = bv.first_diff(got, exp)
                  if i is not None:
                      findings.append(("apply:wrong-keystream", Msg("%s: byte %d of a %d-byte request at absolute position %#x is not data ^ keystream[%#x] [%s]"
                                       % (name, i // 8, n, pos, pos + i // 8, hist), (got, exp))))
                      return findings
                  pos += n
        except Diverge as dv:
            findings.append(("panic:" + site_of(dv), "%s: %s panics (%s) [%s]" % (name, op[0], dv.site[0], hist)))
            return findings
        # state invariant: key rows and stream-id / nonce words never change
        st, _ = core_state(it, cell, t)
        rb, rc, rd = state_rows(it, st)
        eb, ec, ed = expected_init(name, kbits, nbits)
        keep = 32 if nonce == 12 else 64
        if rb != eb or rc != ec or rd[keep:] != ed[keep:]:
            what = "key rows" if (rb != eb or rc != ec) else "nonce/stream-id words"
            ctr = bv.const_value(rd[:keep])
            wrapped = (ctr == 0 and pos >= 64)
            findings.append(("state:%s-changed:%s" % (what.split()[0], "counter-wrapped-into-them" if wrapped else "during-%s" % op[0]),
                             "%s: the %s of the cipher state are modified once the last block has been generated (the block counter carries into them): "
                             "a later seek reproduces a different keystream, and even a failed request does this [%s]" % (name, what, hist)))
            return findings
        for a in it.asserts:
            findings.append(("panic:%s:%s" % (short_inst(a["inst"]), a["kind"]),
                             "%s: %s check in %s depends on key/nonce/data values [%s]" % (name, a["kind"], short_inst(a["inst"]), hist)))
        if it.panics:
            findings.append(("panic:conditional", "%s: conditional panic %s [%s]" % (name, it.panics[0]["site"], hist)))
            it.panics = []
    return findings


def histories(name, tier):
    nonce, dr, isx = ALIASES[name]
    end = (1 << 38) if nonce == 12 else (1 << 64) - 1     # last seekable position
    # request lengths: block and chunk (256-byte) boundaries, and tails of 3 and 7 whole blocks after the chunks
    lens = [0, 1, 63, 64, 65, 192, 256, 321, 448] if tier == "quick" else [0, 1, 2, 63, 64, 65, 127, 128, 129, 192, 255, 256, 257, 321, 384, 448, 600]
    base = [0, 1, 63, 64, 65, 300]
    wrap32 = [(1 << 38) - 257, (1 << 38) - 65, (1 << 38) - 64, (1 << 38) - 1]
    near_end = [end - 600, end - 257, end - 65, end - 64, end - 1, end]
    pts = base + wrap32 + ([(1 << 38), (1 << 38) + 1] if nonce != 12 else []) + near_end
    pts = sorted(set(p for p in pts if 0 <= p <= end))
    out = []
    for p in pts:
        for n1 in lens:
            out.append([("seek", p), ("apply", n1), ("pos",)])
            for n2 in (lens if tier == "thorough" else [1, 64, 257]):
                out.append([("seek", p), ("apply", n1), ("apply", n2), ("pos",)])
    # re-seeking backwards / forwards, twice the same position (involution), seek after reaching the end
    for p in pts:
        for q in (0, 5, p):
            out.append([("seek", p), ("apply", 70), ("seek", q), ("apply", 130), ("pos",)])
            out.append([("apply", 100), ("seek", p), ("pos",), ("apply", 10), ("seek", q), ("apply", 65)])
    # rewinding / skipping relative to where a request ended (incl. requests ending on wide-chunk
    # boundaries), consecutive seeks, three requests in a row
    starts = [0, 32, 64, 96] if tier == "quick" else [0, 1, 32, 63, 64, 96, 250, (1 << 38) - 300]
    n1s = [64, 256, 288, 320, 512] if tier == "quick" else [1, 63, 64, 65, 192, 224, 256, 257, 288, 320, 512, 544, 1024]
    deltas = [-65, -64, -63, -32, -1, 0, 1, 63] if tier == "quick" else [-300, -257, -256, -255, -65, -64, -63, -33, -32, -31, -1, 0, 1, 31, 63, 64, 65]
    for s0 in starts:
        for n1 in n1s:
            for dl in deltas:
                tgt = s0 + n1 + dl
                if 0 <= tgt <= end:
                    for m in ((16,) if tier == "quick" else (1, 16, 70, 300)):
                        out.append([("seek", s0), ("apply", n1), ("seek", tgt), ("pos",), ("apply", m), ("pos",)])
    for a in (64, 128, 320, 1 << 38):
        for k in (-63, -32, -1, 1, 32, 63, 64):
            if 0 <= a + k <= end and a <= end:
                out.append([("seek", a), ("seek", a + k), ("pos",), ("apply", 40), ("pos",)])
                out.append([("apply", 256), ("seek", a), ("seek", a + k), ("apply", 70), ("pos",)])
    for n1 in (32, 64, 100, 256):
        for n2 in (0, 32, 156, 256):
            for n3 in (1, 64, 300):
                out.append([("seek", 32), ("apply", n1), ("apply", n2), ("pos",), ("apply", n3), ("pos",)])
    # the end of the keystream: a failing request leaves data, position and usability intact
    for back in ((0, 1, 10, 64, 65, 300) if nonce == 12 else ()):
        for n in (back + 1, back + 64, back + 400):
            out.append([("seek", end - back), ("apply", n), ("pos",), ("apply", back), ("pos",), ("apply", 1)])
    last = end if nonce == 12 else (1 << 64)
    out.append([("seek", last - 64), ("apply", 64), ("seek", 0), ("apply", 64)])        # back to block 0 after the last block
    out.append([("seek", last - 256), ("apply", 256), ("seek", 64), ("apply", 128)])
    # seeks past the end must fail without panicking (32-bit counter); 64-bit: every u64 is in range
    if nonce == 12:
        for p in (end + 1, end + 64, (1 << 39), (1 << 64) - 1):
            out.append([("seek", p), ("pos",), ("apply", 5)])
    return out


def c02_histories(report, cfg, name, tier, rule="R2.3", chunk=None):
    f = facts.load(cfg)
    hs = histories(name, tier)
    if chunk is not None:
        i, n = chunk
        hs = hs[i::n]
    seen = {}
    done = 0
    for ops in hs:
        try:
            fs = run_history_modular(f, name, ops)
        except Undecided as e:
            report.undecide(rule, "%s:%s" % (name, ops), str(e))
            continue
        done += 1
        for site, msg in fs:
            key = "%s:%s@%s" % (name, site, cfg)
            if key not in seen:
                seen[key] = msg
                report.violated(rule, key, str(msg), graphs=getattr(msg, "graphs", None))
        if not fs:
            report.ok(rule, "%s:%s@%s" % (name, " ".join("%s%s" % (o[0][0], hex(o[1]) if len(o) > 1 else "") for o in ops), cfg),
                      sample={"alias": name, "history": [list(o) for o in ops]} if done % 97 == 1 else None)
    return done


SEEK_TYPES = {"u8": (8, False), "u16": (16, False), "u32": (32, False), "u64": (64, False), "u128": (128, False),
              "usize": (64, False), "i32": (32, True)}


def c02_seek_types(report, cfg, rule="R2.2"):
    """try_seek::<T> for every SeekNum type: Ok exactly for 0 <= v <= end of keystream, and then the
    position is v; negative or too large values give LoopError; never a panic."""
    f = facts.load(cfg)
    n = 0
    for name in ("ChaCha20", "Ietf", "XChaCha12"):
        nonce, dr, isx = ALIASES[name]
        limit = (1 << 38) if nonce == 12 else (1 << 64) - 1
        for tn, (bits, signed) in SEEK_TYPES.items():
            vals = {0, 1, 63, 64, 65, (1 << (bits - (1 if signed else 0))) - 1}
            if signed:
                vals |= {-1, -(1 << (bits - 1))}
            if bits > 38:
                vals |= {(1 << 38) - 1, 1 << 38, (1 << 38) + 1}
            if bits > 64:
                vals |= {(1 << 64) - 1, 1 << 64, (1 << 128) - 1}
            for v in sorted(vals):
                ikey = "%s::try_seek::<%s>(%d)@%s" % (name, tn, v, cfg)
                n += 1

                def go():
                    bv.reset()
                    it = Interp(f, MODELS, hooks=refill_hooks())
                    cell, t, kbits, nbits = make_cipher(it, f, name)
                    seek_i = find(f, r"^<%s as cipher::stream::StreamCipherSeek>::try_seek::<%s>$" % (re.escape(t), tn))
                    pos_i = find(f, r"^<%s as cipher::stream::StreamCipherSeek>::try_current_pos::<u64>$" % re.escape(t))
                    r = it.call_instance(seek_i, [Ptr(cell, ()), bv.const(v, bits)])
                    want_ok = 0 <= v <= limit
                    got_ok = isinstance(r, Enum) and r.variant == 0
                    if it.asserts or it.panics:
                        report.violated(rule, ikey + ":assert", "operand-dependent assertion in try_seek::<%s>" % tn)
                    elif want_ok != got_ok:
                        report.violated(rule, ikey, "%s: try_seek::<%s>(%d) %s, expected %s (keystream positions are 0..=%#x)"
                                        % (name, tn, v, "succeeds" if got_ok else "fails", "success" if want_ok else "LoopError", limit))
                    else:
                        if want_ok:
                            p = it.call_instance(pos_i, [Ptr(cell, ())])
                            if not (isinstance(p, Enum) and p.variant == 0 and bv.const_value(p.f[0]) == v):
                                report.violated(rule, ikey + ":pos", "%s: after try_seek::<%s>(%d) the reported position differs" % (name, tn, v))
                                return
                        report.ok(rule, ikey, sample={"alias": name, "type": tn, "value": v, "result": "Ok" if got_ok else "LoopError"} if v in (-1, 1 << 38) else None)
                try:
                    go()
                except Diverge as dv:
                    report.violated(rule, ikey, "%s: try_seek::<%s>(%d) panics: %s" % (name, tn, v, dv.site[:2]))
                except Undecided as e:
                    report.undecide(rule, ikey, str(e))
    return n


def end_histories(name):
    """Histories around the end of the keystream and the counter word boundaries (C11)."""
    nonce, dr, isx = ALIASES[name]
    out = []
    if nonce == 12:
        end = 1 << 38
        for back in (0, 1, 10, 63, 64, 65, 88, 127, 128, 129, 255, 256, 257, 300):
            for n in sorted({back, back + 1, back + 63, back + 64, back + 400, 1, 2, 30, 63}):
                out.append([("seek", end - back), ("pos",), ("apply", n), ("pos",), ("apply", back), ("pos",), ("apply", 1), ("pos",)])
            out.append([("seek", end - back), ("apply", back), ("seek", 0), ("apply", 100), ("seek", end - back), ("apply", back)])
        for p in (end + 1, end + 63, end + 64, 1 << 39, (1 << 64) - 1):
            out.append([("seek", 7), ("apply", 3), ("seek", p), ("pos",), ("apply", 5), ("pos",)])
    else:
        for base in (1 << 38, 1 << 64):
            for back in (1, 64, 65, 256, 257, 300):
                for n in (back, back + 1, back + 64, back + 300):
                    out.append([("seek", base - back), ("apply", n), ("pos",), ("apply", 64), ("pos",)])
        out.append([("seek", (1 << 64) - 1), ("apply", 1), ("apply", 64), ("seek", 0), ("apply", 64), ("pos",)])
    return out


def c11_histories(report, cfg, name, chunk=None):
    f = facts.load(cfg)
    hs = end_histories(name)
    if chunk is not None:
        hs = hs[chunk[0]::chunk[1]]
    seen = set()
    done = 0
    for ops in hs:
        try:
            fs = run_history_modular(f, name, ops)
        except Undecided as e:
            report.undecide("R11.2", "%s:%s" % (name, ops), str(e))
            continue
        done += 1
        for site, msg in fs:
            rule = "R11.3" if site.startswith("state:") else ("R11.1" if "seek" in site else "R11.2")
            key = "%s:%s@%s" % (name, site, cfg)
            if key not in seen:
                seen.add(key)
                report.violated(rule, key, str(msg), graphs=getattr(msg, "graphs", None))
        if not fs:
            report.ok("R11.2", "%s:%s@%s" % (name, " ".join("%s%s" % (o[0][0], hex(o[1]) if len(o) > 1 else "") for o in ops), cfg),
                      sample={"alias": name, "history": [list(o) for o in ops]} if done % 23 == 1 else None)
    return done
