"""ChaCha value-graph rules: C14 (block API), C15 (stream parameters / stream equality),
C01 (state construction, per-alias keystream), bounded-history rule for C02/C11."""
import re

from . import bv, facts
from .bv import ZERO, ONE
from .interp import Interp, Undecided, Diverge, Agg, Enum, Ptr
from .models import M as MODELS, model
from .check_threefish import engine_guard, find, bytes_cell, cell_bytes
from spec import chacha as CH


@model(*["std_detect::detect::arch::x86::__is_feature_detected::" + x
         for x in ("avx2", "avx", "sse4_1", "ssse3", "sse2", "aes", "sse3", "sse4_2", "sse")])
def _detected(it, key, a, ce):
    feat = key.rsplit("::", 1)[1]
    return (bv.abit(("in", "cpu." + feat, 0)),)


CHACHA_TY = "c2_chacha::guts::ChaCha"


def new_interp(f):
    return Interp(f, MODELS)


def sym_state(it):
    """Symbolic ChaCha state; returns (cell, b, c, d) with b,c,d flat 128-bit vectors."""
    b, c, d = bv.inp("b", 128), bv.inp("c", 128), bv.inp("d", 128)
    cell = it.new_cell(Agg([b, c, d]), "chacha")
    # check field order of the struct
    names = [fl["name"] for fl in it.ty.get(CHACHA_TY)["variants"][0]["fields"]]
    if names != ["b", "c", "d"]:
        raise Undecided("ChaCha fields are %s" % names)
    return cell, b, c, d


def state_rows(it, v):
    v = it.as_agg(v, CHACHA_TY)
    return [it.to_bits(x, "ppv_lite86::x86_64::vec128_storage") if not isinstance(x, tuple) else x for x in v.f]


def audit(it, report, rule, key, allow_kinds=()):
    bad = False
    seen = set()
    for a in it.asserts:
        k = (a["inst"], a["kind"])
        if k in seen:
            continue
        seen.add(k)
        report.violated(rule, "%s:%s:%s" % (key, short_inst(a["inst"]), a["kind"]),
                        "%s check in %s (%s:%s) can fail for some inputs: its condition depends on operand values (%s); debug builds panic"
                        % (a["kind"], short_inst(a["inst"]), (a.get("span") or {}).get("file", "?").replace("/repo/", ""),
                           (a.get("span") or {}).get("line", "?"), bv.show_bit(a["cond"], 1)))
        bad = True
    for p in it.panics:
        report.violated(rule, "%s:panic" % key, "conditional panic %s" % (p["site"],))
        bad = True
    return bad


def short_inst(k):
    k = re.sub(r"::<.*$", "", k)
    return k


def c14(report, cfg, drounds_list, collect=None):
    f = facts.load(cfg)
    refill4 = find(f, r"^c2_chacha::guts::ChaCha::refill4$")
    refill = find(f, r"^c2_chacha::guts::ChaCha::refill$")
    for dr in drounds_list:
        # ---- wide
        key = "refill4:drounds=%d@%s" % (dr, cfg)

        def wide():
            bv.reset()
            it = new_interp(f)
            cell, b, c, d = sym_state(it)
            old, ocell = bytes_cell(it, "old", 256)
            it.call_instance(refill4, [Ptr(cell, ()), bv.const(dr, 32), Ptr(ocell, ())])
            if audit(it, report, "R14.1", key):
                return
            got = cell_bytes(ocell)
            exp = bv.concat(CH.block_at(b, c, d, i, dr) for i in range(4))
            i = bv.first_diff(got, exp)
            if i is not None:
                report.violated("R14.1", key, "refill4: output byte %d (block %d, word %d) differs from the ChaCha block function at counter+%d: got bit %s"
                                % (i // 8, i // 512, (i % 512) // 32, i // 512, bv.show_bit(got[i], 2)))
                return
            rows = state_rows(it, cell.v)
            expd = bv.add(d[:64], bv.const(4, 64)) + d[64:]
            if rows[0] != b or rows[1] != c or rows[2] != expd:
                report.violated("R14.1", key + ":state", "refill4 leaves a state other than (key, counter+4 as 64-bit, stream id)")
                return
            report.ok("R14.1", key, sample={"fn": "refill4", "drounds": dr, "config": cfg, "atoms": bv.n_atoms()})
        engine_guard(wide, report, "R14.1", key)
        # ---- narrow
        nkey = "refill:drounds=%d@%s" % (dr, cfg)

        def narrow():
            bv.reset()
            it = new_interp(f)
            cell, b, c, d = sym_state(it)
            old, ocell = bytes_cell(it, "old", 64)
            it.call_instance(refill, [Ptr(cell, ()), bv.const(dr, 32), Ptr(ocell, ())])
            bad = audit(it, report, "R14.2", nkey)
            got = cell_bytes(ocell)
            exp = CH.block_at(b, c, d, 0, dr)
            i = bv.first_diff(got, exp)
            if i is not None:
                report.violated("R14.2", nkey, "refill: output byte %d differs from the ChaCha block function: got bit %s"
                                % (i // 8, bv.show_bit(got[i], 2)))
                return
            rows = state_rows(it, cell.v)
            expd = bv.add(d[:64], bv.const(1, 64)) + d[64:]
            if rows[0] != b or rows[1] != c or rows[2] != expd:
                report.violated("R14.2", nkey + ":state", "refill leaves a state other than (key, counter+1 as 64-bit, stream id)")
                return
            if not bad:
                report.ok("R14.2", nkey)
        engine_guard(narrow, report, "R14.2", nkey)
        # ---- four narrow refills == one wide refill (outputs and final state), directly
        ekey = "4xrefill=refill4:drounds=%d@%s" % (dr, cfg)

        def equal():
            bv.reset()
            it = new_interp(f)
            cell, b, c, d = sym_state(it)
            cell2 = it.new_cell(cell.v, "chacha2")
            old, ocell = bytes_cell(it, "old", 256)
            it.call_instance(refill4, [Ptr(cell, ()), bv.const(dr, 32), Ptr(ocell, ())])
            outs = []
            for i in range(4):
                o1, c1 = bytes_cell(it, "o%d" % i, 64)
                it.call_instance(refill, [Ptr(cell2, ()), bv.const(dr, 32), Ptr(c1, ())])
                outs.append(cell_bytes(c1))
            if cell_bytes(ocell) != bv.concat(outs):
                report.violated("R14.3", ekey, "refill4 output differs from four consecutive refill outputs")
            elif state_rows(it, cell.v) != state_rows(it, cell2.v):
                report.violated("R14.3", ekey, "state after refill4 differs from the state after four refills")
            else:
                report.ok("R14.3", ekey)
        engine_guard(equal, report, "R14.3", ekey)


def c15(report, cfg):
    f = facts.load(cfg)
    setp = find(f, r"^c2_chacha::guts::ChaCha::set_stream_param$")
    getp = find(f, r"^c2_chacha::guts::ChaCha::get_stream_param$")
    for p in (0, 1):
        key = "set/get param %d@%s" % (p, cfg)

        def go():
            bv.reset()
            it = new_interp(f)
            cell, b, c, d = sym_state(it)
            v = bv.inp("v", 64)
            before = it.call_instance(getp, [Ptr(cell, ()), bv.const(p, 32)])
            if before != d[64 * p:64 * p + 64]:
                report.violated("R15.1", key + ":get", "get_stream_param(%d) is not words %d,%d of d" % (p, 2 * p, 2 * p + 1))
                return
            it.call_instance(setp, [Ptr(cell, ()), bv.const(p, 32), v])
            if audit(it, report, "R15.1", key):
                return
            rows = state_rows(it, cell.v)
            expd = list(d)
            expd[64 * p:64 * p + 64] = v
            if rows[0] != b or rows[1] != c or rows[2] != tuple(expd):
                report.violated("R15.1", key, "set_stream_param(%d, v) does not yield (key unchanged, d with only words %d,%d replaced by v)" % (p, 2 * p, 2 * p + 1))
                return
            after = it.call_instance(getp, [Ptr(cell, ()), bv.const(p, 32)])
            other = it.call_instance(getp, [Ptr(cell, ()), bv.const(1 - p, 32)])
            if after != v or other != d[64 * (1 - p):64 * (1 - p) + 64]:
                report.violated("R15.1", key + ":roundtrip", "get after set does not return v / disturbs the other parameter")
                return
            report.ok("R15.1", key, sample={"param": p, "config": cfg})
        engine_guard(go, report, "R15.1", key)
    for name, words in (("stream32_eq", (1, 2, 3)), ("stream64_eq", (2, 3))):
        key = "%s@%s" % (name, cfg)

        def eq():
            bv.reset()
            it = new_interp(f)
            inst = find(f, r"^c2_chacha::guts::ChaCha::%s$" % name)
            cell, b, c, d = sym_state(it)
            b2, c2, d2 = bv.inp("b2", 128), bv.inp("c2", 128), bv.inp("d2", 128)
            cell2 = it.new_cell(Agg([b2, c2, d2]), "rhs")
            r = it.call_instance(inst, [Ptr(cell, ()), Ptr(cell2, ())])
            if audit(it, report, "R15.2", key):
                return
            bits = []
            for x, y in ((b, b2), (c, c2)):
                bits.extend(p ^ q ^ ONE for p, q in zip(x, y))
            for wi in words:
                bits.extend(p ^ q ^ ONE for p, q in zip(d[32 * wi:32 * wi + 32], d2[32 * wi:32 * wi + 32]))
            exp = bv.band_n(bits)
            if r[0] == exp:
                report.ok("R15.2", key, sample={"predicate": name, "compared": "b, c, d words %s" % (words,)})
            else:
                got_ops = _conj_inputs(r[0])
                exp_ops = _conj_inputs(exp)
                report.violated("R15.2", key, "%s is not the conjunction of equality of key rows and d words %s; compared bits missing: %s, extra: %s"
                                % (name, words, sorted(exp_ops - got_ops)[:6], sorted(got_ops - exp_ops)[:6]))
        engine_guard(eq, report, "R15.2", key)


def _conj_inputs(bit):
    s = set()
    for (n, i) in bv.support((bit,)):
        s.add("%s[%d]" % (n.rstrip("2"), i))
    return s


# ------------------------------------------------------------------------------------ C01

ALIASES = {
    # name: (nonce bytes, double rounds, is X)
    "ChaCha8": (8, 4, False), "ChaCha12": (8, 6, False), "ChaCha20": (8, 10, False), "Ietf": (12, 10, False),
    "XChaCha8": (24, 4, True), "XChaCha12": (24, 6, True), "XChaCha20": (24, 10, True),
}


def alias_type(f, name):
    nonce, dr, isx = ALIASES[name]
    cands = []
    for k in f.types:
        if k.startswith("c2_chacha::rustcrypto_impl::ChaChaAny<"):
            args = f.types[k]["args"]
            if facts.typenum_value(args[0]) == nonce and facts.typenum_value(args[1]) == dr and args[2].endswith("::X") == isx:
                cands.append(k)
    if len(cands) != 1:
        raise Undecided("alias %s: %d candidate types" % (name, len(cands)))
    return cands[0]


def field(it, v, t, name):
    d = it.ty.get(t)
    for i, fl in enumerate(d["variants"][0]["fields"]):
        if fl["name"] == name:
            v = it.as_agg(v, t)
            return v.f[i], fl["ty"]
    raise Undecided("no field %s in %s" % (name, t))


def expected_init(name, kbits, nbits):
    nonce, dr, isx = ALIASES[name]
    kw = CH.words32(kbits)
    nw = CH.words32(nbits)
    z = bv.const(0, 32)
    if not isx:
        b, c = bv.concat(kw[0:4]), bv.concat(kw[4:8])
        d = bv.concat([z, z, nw[0], nw[1]]) if nonce == 8 else bv.concat([z, nw[0], nw[1], nw[2]])
    else:
        sub = CH.hchacha(kw, nw[0:4], dr)
        b, c = bv.concat(sub[0:4]), bv.concat(sub[4:8])
        d = bv.concat([z, z, nw[4], nw[5]])
    return b, c, d


def make_cipher(it, f, name):
    """Evaluate NewCipher::new for alias `name` on symbolic key/nonce; -> (cell, type, kbits, nbits)."""
    nonce, dr, isx = ALIASES[name]
    t = alias_type(f, name)
    new = find(f, r"^<%s as cipher::common::NewCipher>::new$" % re.escape(t))
    kbits, kcell = bytes_cell(it, "key", 32)
    nbits, ncell = bytes_cell(it, "nonce", nonce)
    v = it.call_instance(new, [Ptr(kcell, ()), Ptr(ncell, ())])
    return it.new_cell(v, "cipher"), t, kbits, nbits


def c01_new(report, cfg):
    f = facts.load(cfg)
    for name in ALIASES:
        key = "%s::new@%s" % (name, cfg)

        def go():
            bv.reset()
            it = new_interp(f)
            nonce, dr, isx = ALIASES[name]
            cell, t, kbits, nbits = make_cipher(it, f, name)
            if audit(it, report, "R1.4", key):
                return
            buf, bt = field(it, cell.v, t, "state")
            st, stt = field(it, buf, bt, "state")
            rows = state_rows(it, st)
            eb, ec, ed = expected_init(name, kbits, nbits)
            if rows != [eb, ec, ed]:
                which = [n for n, a, b in zip("bcd", rows, (eb, ec, ed)) if a != b]
                report.violated("R1.4", key, "%s::new: state row(s) %s differ from the specified key/nonce/counter layout%s"
                                % (name, ",".join(which), " (HChaCha subkey with %d double rounds)" % dr if isx else ""))
                return
            have, _ = field(it, buf, bt, "have")
            ln, _ = field(it, buf, bt, "len")
            fresh, _ = field(it, buf, bt, "fresh")
            out, ot = field(it, buf, bt, "out")
            exp_len = (1 << 32) if nonce == 12 else 0
            if bv.const_value(have) != 0 or bv.const_value(ln) != exp_len or bv.const_value(fresh) != (0 if nonce == 12 else 1) \
                    or bv.const_value(it.to_bits(out, ot)) != 0:
                report.violated("R1.4", key + ":buffer", "%s::new: buffer bookkeeping is not (have=0, len=%d, fresh=%s, out=0)"
                                % (name, exp_len, nonce != 12))
                return
            report.ok("R1.4", key, sample={"alias": name, "nonce_bytes": nonce, "double_rounds": dr, "x": isx, "config": cfg})
        engine_guard(go, report, "R1.4", key)


def keystream_expected(name, kbits, nbits, start_block, nblocks):
    nonce, dr, isx = ALIASES[name]
    b, c, d = expected_init(name, kbits, nbits)
    out = []
    for i in range(nblocks):
        if nonce == 12:
            ctr = bv.add(d[:32], bv.const(start_block + i, 32))
            dd = ctr + d[32:]
            out.append(CH.block(CH.words32(b) + CH.words32(c), CH.words32(dd), dr))
        else:
            out.append(CH.block_at(b, c, d, start_block + i, dr))
    return bv.concat(out)


def run_history(it, f, name, ops, report, rule, key):
    """Evaluate a history of operations on a fresh cipher with symbolic key/nonce/data.
    ops: list of ("apply", n) / ("seek", pos).  Every processed byte must equal data ^ keystream[abs pos].
    Returns True if everything matched."""
    nonce, dr, isx = ALIASES[name]
    cell, t, kbits, nbits = make_cipher(it, f, name)
    apply_i = find(f, r"^<%s as cipher::stream::StreamCipher>::try_apply_keystream$" % re.escape(t))
    limit = (1 << 38) if nonce == 12 else (1 << 64)
    pos = 0
    n_in = 0
    ks_cache = {}
    for op in ops:
        if op[0] == "seek":
            seek_i = find(f, r"^<%s as cipher::stream::StreamCipherSeek>::try_seek::<u64>$" % re.escape(t))
            r = it.call_instance(seek_i, [Ptr(cell, ()), bv.const(op[1], 64)])
            if not (isinstance(r, Enum) and r.variant == 0):
                report.violated(rule, key, "%s: try_seek(%d) fails" % (name, op[1]))
                return False
            pos = op[1]
        else:
            n = op[1]
            n_in += 1
            dbits, dcell = bytes_cell(it, "data%d" % n_in, n)
            r = it.call_instance(apply_i, [Ptr(dcell, ()), ]) if False else \
                it.call_instance(apply_i, [Ptr(cell, ()), Ptr(dcell, (), idx=0, meta=n, ety="u8")])
            should_fail = pos + n > limit
            if not isinstance(r, Enum):
                raise Undecided("result of try_apply_keystream is %r" % (r,))
            if should_fail:
                if r.variant != 1:
                    report.violated(rule, key, "%s: request of %d bytes at position %d crosses the end of the keystream but succeeds" % (name, n, pos))
                    return False
                if cell_bytes(dcell) != dbits:
                    report.violated(rule, key, "%s: failed request at position %d modified the data" % (name, pos))
                    return False
                continue
            if r.variant != 0:
                report.violated(rule, key, "%s: request of %d bytes at position %d fails although it ends within the keystream" % (name, n, pos))
                return False
            got = cell_bytes(dcell)
            b0, b1 = pos // 64, (pos + n + 63) // 64
            ks = []
            for blk in range(b0, b1):
                if blk not in ks_cache:
                    ks_cache[blk] = keystream_expected(name, kbits, nbits, blk, 1)
                ks.append(ks_cache[blk])
            ks = bv.concat(ks)
            off = (pos - b0 * 64) * 8
            exp = bv.xor(dbits, ks[off:off + 8 * n])
            i = bv.first_diff(got, exp)
            if i is not None:
                report.violated(rule, key, "%s: byte %d of a %d-byte request at stream position %d is not data ^ keystream[%d] (history %s)"
                                % (name, i // 8, n, pos, pos + i // 8, ops))
                return False
            pos += n
    return True


def c01_stream(report, cfg, lengths):
    f = facts.load(cfg)
    for name in ALIASES:
        key = "%s keystream from position 0@%s" % (name, cfg)

        def go():
            ok = True
            for n in lengths:
                bv.reset()
                it = new_interp(f)
                ok = run_history(it, f, name, [("apply", n)], report, "R1.5", key + ":len=%d" % n) and ok
                if audit(it, report, "R1.5", key):
                    ok = False
            if ok:
                report.ok("R1.5", key, sample={"alias": name, "lengths": list(lengths), "config": cfg})
        engine_guard(go, report, "R1.5", key)
