"""Run independent rule instances on all cores; each job fills its own Report, merged afterwards."""
import multiprocessing as mp
import os

from .report import Report

_JOBS = None


def _work(i):
    fn, args, prop, tier, level = _JOBS[i]
    r = Report(prop, tier, level)
    try:
        ret = fn(r, *args)
    except MemoryError:
        r.undecide("engine", "job %d" % i, "out of memory")
        ret = None
    return (r.holds, r.violations, r.undecided, r.samples, r.extra, r.rule_counts, r.notes, ret)


def run(report, jobs, procs=None):
    """jobs: list of (fn, args); fn(report, *args). Returns list of fn return values."""
    global _JOBS
    _JOBS = [(fn, args, report.prop, report.tier, report.level) for fn, args in jobs]
    procs = procs or min(len(jobs), int(os.environ.get("VERIF_PROCS", "0")) or os.cpu_count() or 4)
    if procs <= 1 or len(jobs) <= 1:
        results = [_work(i) for i in range(len(jobs))]
    else:
        ctx = mp.get_context("fork")
        with ctx.Pool(procs) as pool:
            results = pool.map(_work, range(len(jobs)), chunksize=1)
    rets = []
    for holds, viol, undec, samples, extra, counts, notes, ret in results:
        report.holds.extend(holds)
        for v in viol:
            if not any(x["key"] == v["key"] for x in report.violations):
                report.violations.append(v)
        report.undecided.extend(undec)
        for s in samples:
            if len(report.samples) < 12:
                report.samples.append(s)
        for k, v in counts.items():
            report.rule_counts[k] = report.rule_counts.get(k, 0) + v
        for k, v in extra.items():
            if isinstance(v, int) and isinstance(report.extra.get(k), int):
                report.extra[k] += v
            else:
                report.extra.setdefault(k, v)
        report.notes.extend(n for n in notes if n not in report.notes)
        rets.append(ret)
    return rets
