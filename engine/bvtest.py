"""Differential self-test of the term domain (engine/bv.py): random expression trees are built with the
normalising constructors and evaluated with the graph evaluator; the result must equal the same
expression computed on Python integers.  This exercises the sum normal forms (flattening, carry chains,
limb/wide lifting, zero-extension flattening, prefix registration, comparison idioms) for SOUNDNESS:
whatever the normaliser rewrites must denote the same function.  It tests the checker, never /repo."""
import random
import sys

from . import bv


def rnd_expr(r, depth, names, w):
    M = (1 << w) - 1
    if depth == 0 or r.random() < 0.2:
        if r.random() < 0.7:
            nme = r.choice(names)
            return bv.inp(nme, w), (lambda env, n=nme: env[n])
        c = r.choice([0, 1, M, 1 << (w - 1), r.getrandbits(w), r.getrandbits(w // 2)])
        return bv.const(c, w), (lambda env, c=c: c)
    op = r.choice(['add', 'add', 'sub', 'xor', 'and', 'or', 'shl', 'shr', 'rot', 'not', 'mulc', 'limbadd', 'ite', 'wide',
                   'splitjoin', 'cmpcarry', 'ovf', 'inc2', 'neg'])
    a, fa = rnd_expr(r, depth - 1, names, w)
    b, fb = rnd_expr(r, depth - 1, names, w)
    h = w // 2
    H = (1 << h) - 1
    if op == 'add':
        return bv.add(a, b), lambda e: (fa(e) + fb(e)) & M
    if op == 'sub':
        return bv.sub(a, b), lambda e: (fa(e) - fb(e)) & M
    if op == 'neg':
        return bv.neg(a), lambda e: (-fa(e)) & M
    if op == 'xor':
        return bv.xor(a, b), lambda e: fa(e) ^ fb(e)
    if op == 'and':
        return bv.and_(a, b), lambda e: fa(e) & fb(e)
    if op == 'or':
        return bv.or_(a, b), lambda e: fa(e) | fb(e)
    if op == 'shl':
        k = r.randrange(w)
        return bv.shl(a, k), lambda e: (fa(e) << k) & M
    if op == 'shr':
        k = r.randrange(w)
        return bv.lshr(a, k), lambda e: fa(e) >> k
    if op == 'rot':
        k = r.randrange(w)
        return bv.rotl(a, k), lambda e: ((fa(e) << k) | (fa(e) >> (w - k))) & M if k else fa(e)
    if op == 'not':
        return bv.not_(a), lambda e: fa(e) ^ M
    if op == 'mulc':
        k = r.choice([2, 3, 4, 5, 8, M, r.getrandbits(4)])
        return bv.mul_const(a, k), lambda e: (fa(e) * k) & M
    if op == 'limbadd':
        # two-limb addition with carry, reassembled
        lo = bv.add(a[:h], b[:h])
        c = bv.carry_add(a[:h], b[:h])
        hi = bv.add(bv.add(a[h:], b[h:]), bv.zext((c,), h))
        return lo + hi, lambda e: (fa(e) + fb(e)) & M
    if op == 'ite':
        c = bv.cmp_bit('ult', a, b)
        return bv.ite(c, bv.add(a, bv.const(1, w)), a), lambda e: ((fa(e) + 1) & M) if fa(e) < fb(e) else fa(e)
    if op == 'wide':
        # 2w-bit arithmetic, truncated
        s = bv.add(bv.zext(a, 2 * w), bv.zext(b, 2 * w))
        k = r.getrandbits(w)
        s = bv.add(s, bv.const(k, 2 * w))
        return bv.xor(s[:w], s[w:]), lambda e: ((fa(e) + fb(e) + k) & M) ^ ((fa(e) + fb(e) + k) >> w)
    if op == 'splitjoin':
        k1, k2 = r.getrandbits(w), r.getrandbits(w)
        s1 = bv.add(bv.zext(a, 2 * w), bv.const(k1, 2 * w))
        lo, hi = s1[:h], s1[h:w]
        re = bv.or_(bv.zext(lo, 2 * w), bv.shl(bv.zext(hi, 2 * w), h))
        s2 = bv.add(re, bv.const(k2, 2 * w))
        return s2[:w], lambda e: (((fa(e) + k1) & M) + k2) & M
    if op == 'cmpcarry':
        s = bv.add(a, b)
        c = bv.cmp_bit('ult', s, r.choice([a, b]))
        return bv.add(bv.shl(s, 1), bv.zext((c,), w)), lambda e: ((((fa(e) + fb(e)) & M) << 1) + ((fa(e) + fb(e)) >> w)) & M
    if op == 'ovf':
        k = r.getrandbits(w)
        s = bv.add(a, bv.const(k, w))
        c = bv.carry_add(a, bv.const(k, w))
        t = bv.ite(c, bv.add(b, bv.const(1, w)), b)
        return bv.xor(s, t), lambda e: ((fa(e) + k) & M) ^ ((fb(e) + ((fa(e) + k) >> w)) & M)
    if op == 'inc2':
        # sequential limb increments by constants
        k1, k2 = r.getrandbits(h), r.getrandbits(h)
        lo, hi = a[:h], a[h:]
        for k in (k1, k2):
            c = bv.carry_add(lo, bv.const(k, h))
            lo = bv.add(lo, bv.const(k, h))
            hi = bv.add(hi, bv.zext((c,), h))
        return lo + hi, lambda e: (fa(e) + k1 + k2) & M
    raise AssertionError(op)


def run(n=250, seed=11, verbose=True):
    r = random.Random(seed)
    for it in range(n):
        if it % 8 == 0:
            bv.reset()                      # mostly fresh tables, sometimes shared history between expressions
        w = r.choice([4, 8, 8, 16, 32])
        e, f = rnd_expr(r, r.choice([2, 3, 4]), ['p', 'q', 'r'], w)
        for _ in range(5):
            env = {k: r.choice([0, (1 << w) - 1, r.getrandbits(w), r.getrandbits(w)]) for k in 'pqr'}
            ev = bv.Evaluator(env)
            got, exp = ev.bv(e), f(env)
            if got != exp:
                print("bv self-test FAILED: expression %d (width %d) evaluates to %#x, integers give %#x for %s" % (it, w, got, exp, env))
                return False
    bv.reset()
    if verbose:
        print("bv differential self-test: ok (%d random expressions)" % n)
    return True


if __name__ == "__main__":
    sys.exit(0 if run(int(sys.argv[1]) if len(sys.argv) > 1 else 250, int(sys.argv[2]) if len(sys.argv) > 2 else 11) else 1)
