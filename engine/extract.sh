#!/bin/bash
# usage: extract.sh <outdir> [cargo feature args...]
# Runs factgen (E0) over the roots fixture (and thereby over every /repo crate it depends on)
# from /repo's current working tree into a fresh target dir, which is removed afterwards.
set -e
OUT="$1"; shift
VERIF="$(cd "$(dirname "$0")/.." && pwd)"
SYSROOT=$(rustc +nightly --print sysroot)
T=$(mktemp -d /tmp/factgen-target.XXXXXX)
trap 'rm -rf "$T"' EXIT
mkdir -p "$OUT"
FIXTURE="${FIXTURE:-roots}"
if [ "$FIXTURE" = roots ]; then cp /repo/Cargo.lock "$VERIF/fixtures/roots/Cargo.lock"; fi
cd "$VERIF/fixtures/$FIXTURE"
LD_LIBRARY_PATH="$SYSROOT/lib" \
RUSTFLAGS="-Zmir-opt-level=0 -Zalways-encode-mir -Awarnings --cfg zerocopy_derive_union_into_bytes ${EXTRA_RUSTFLAGS}" \
RUSTC_WRAPPER="$VERIF/factgen/target/debug/factgen" \
FACTGEN_OUT="$OUT" \
FACTGEN_CRATES=verif_roots,verif_controls,c2_chacha,blake_hash,groestl_aesni,jh_x86_64,skein_hash,threefish_cipher,ppv_lite86,ppv_null,crypto_simd \
CARGO_TARGET_DIR="$T" CARGO_NET_OFFLINE=true \
cargo +nightly check --offline "$@" 2>"$OUT/cargo.log" || { tail -30 "$OUT/cargo.log"; exit 2; }
