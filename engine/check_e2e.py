"""End-to-end obligations for the hash crates: Default -> update(chunk)* -> finalize_into_dirty, run
through the real MIR with no hook on any function of the hash crate (only the run-time dispatcher
is pinned to an arm for Groestl), on symbolic message bytes of a concrete length, equals the
specified hash of the concatenated message.  These obligations do not depend on the signature or
the name of any private function, so they keep deciding after update/finalize are restructured."""
from . import bv, facts
from .interp import Interp, Undecided, Diverge, Agg, Ptr
from .models import M as MODELS
from .check_threefish import engine_guard, find, bytes_cell, cell_bytes
from . import check_blake, check_groestl, check_skein
from spec import blake as B, groestl as G, skein as S
import re


def api_digest(it, f, t, chunks, nout):
    esc = re.escape(t)
    d = find(f, r"^<%s as core::default::Default>::default$" % esc)
    upd = find(f, r"^<%s as digest::Update>::update::<&\[u8\]>$" % esc)
    fin = find(f, r"^<%s as digest::fixed::FixedOutputDirty>::finalize_into_dirty$" % esc)
    v = it.call_instance(d, [])
    scell = it.new_cell(v, "hasher")
    msg = ()
    if chunks and chunks[0] == "reuse":
        # the hasher is first finalised in place on the empty message and reset, then reused
        rs = find(f, r"^<%s as digest::Reset>::reset$" % esc)
        _, o0 = bytes_cell(it, "out0", nout)
        it.call_instance(fin, [Ptr(scell, ()), Ptr(o0, ())])
        it.call_instance(rs, [Ptr(scell, ())])
        chunks = chunks[1:]
    for i, n in enumerate(chunks):
        bits, cell = bytes_cell(it, "m%d" % i, n)
        it.call_instance(upd, [Ptr(scell, ()), Ptr(cell, (), idx=0, meta=n, ety="u8")])
        msg += bits
    _, ocell = bytes_cell(it, "out", nout)
    it.call_instance(fin, [Ptr(scell, ()), Ptr(ocell, ())])
    return msg, cell_bytes(ocell)


def chunkings(bb):
    """Message splittings (lengths of successive update calls) around the block boundaries."""
    return [(0,), (1,), (bb - 1,), (bb,), (bb + 1,), (2 * bb,), (3, 3 * bb + 7), (bb - 1, 2 * bb + 2), (bb, bb), (2 * bb + 5, 0, bb - 5),
            ("reuse", 3), ("reuse", bb + 1)]


def blake_spec(variant, msg):
    w, rounds, bb, rot, marker, outb = B.PARAMS[variant]
    n = len(msg) // 8
    h = [bv.const(x, w) for x in B.IV[variant]]
    t = 0
    full = n // bb
    mask = (1 << w) - 1
    for i in range(full):
        t += 8 * bb
        h = B.compress_block(variant, h, msg[8 * bb * i:8 * bb * (i + 1)], bv.const(t & mask, w), bv.const(t >> w, w))
    rest = msg[8 * bb * full:]
    return B.finalize(variant, h, rest, n - full * bb, bv.const(t & mask, w), bv.const(t >> w, w))


def groestl_spec(out_bits, msg):
    cols = 8 if out_bits <= 256 else 16
    bb = 8 * cols
    n = len(msg) // 8
    h = G.iv(cols, out_bits)
    padlen = (-(n + 9)) % bb
    nblocks = (n + 9 + padlen) // bb
    tail = b"\x80" + bytes(padlen) + nblocks.to_bytes(8, "big")
    data = msg + bv.const(int.from_bytes(tail, "little"), 8 * len(tail))
    for i in range(nblocks):
        h = G.compress(h, data[8 * bb * i:8 * bb * (i + 1)], cols, G.ufn_sbox)
    o = G.output(h, cols, G.ufn_sbox)
    return o[8 * (bb - out_bits // 8):]


def skein_spec(nb, out_bytes, msg):
    tf = S.real_tf(nb)
    n = len(msg) // 8
    x = S.initial_state(tf, nb, out_bytes)
    t0 = 0
    t1 = S.T1_FIRST | S.TYPE_MSG
    nblocks = max(1, (n + nb - 1) // nb)
    for i in range(nblocks - 1):
        t0 += nb
        x = S.ubi_block(tf, x, S.c64(t0), S.c64(t1), msg[8 * nb * i:8 * nb * (i + 1)])
        t1 &= ~S.T1_FIRST
    last = msg[8 * nb * (nblocks - 1):]
    p = len(last) // 8
    x = S.final_message_block(tf, nb, x, S.c64(t0), S.c64(t1), last + bv.const(0, 8 * (nb - p)), p)
    return S.output(tf, nb, x, out_bytes)


def _compare(report, rule, ikey, it, msg, got, exp, what, sample):
    if it.asserts or it.panics:
        a = (it.asserts + it.panics)[0]
        report.violated(rule, ikey + ":assert", "%s: an assertion or panic depends on the message bytes (%s)" % (what, a.get("kind") or a.get("site")))
        return
    i = bv.first_diff(got, exp)
    if i is None:
        report.ok(rule, ikey, sample=sample)
    else:
        report.violated(rule, ikey, "%s: digest byte %d bit %d differs from the specified hash of the %d-byte message"
                        % (what, i // 8, i % 8, len(msg) // 8), graphs=(got, exp))


def e2e_blake(report, cfg, rule="R4.6", names=None, chunks=None):
    f = facts.load(cfg)
    n = 0
    for name, variant in check_blake.VARIANTS.items():
        if names and name not in names:
            continue
        w, rounds, bb, rot, marker, outb = B.PARAMS[variant]
        for ch in (chunks or chunkings(bb)):
            ikey = "%s default+update%s+finalize@%s" % (name, list(ch), cfg)
            n += 1

            def go():
                bv.reset()
                it = Interp(f, MODELS)
                msg, got = api_digest(it, f, "blake_hash::%s" % name, ch, outb)
                exp = blake_spec(variant, msg)
                _compare(report, rule, ikey, it, msg, got, exp, "%s over update calls of %s bytes" % (name, list(ch)),
                         {"hasher": name, "chunks": list(ch), "atoms": bv.n_atoms()} if len(ch) > 1 and ch[0] == 3 else None)
            engine_guard(go, report, rule, ikey)
    return n


def e2e_groestl(report, cfg, arm, rule="R7.7", names=None, chunks=None):
    f = facts.load(cfg)
    n = 0
    for name, (bits, cols, inner) in check_groestl.HASHERS.items():
        if names and name not in names:
            continue
        bb = 8 * cols
        for ch in (chunks or chunkings(bb)):
            ikey = "%s default+update%s+finalize [%s arm]@%s" % (name, list(ch), arm, cfg)
            n += 1

            def go():
                bv.reset()
                it = Interp(f, MODELS, hooks=check_groestl.arm_hooks(arm))
                msg, got = api_digest(it, f, "groestl_aesni::%s" % name, ch, bits // 8)
                exp = groestl_spec(bits, msg)
                _compare(report, rule, ikey, it, msg, got, exp, "%s (%s arm) over update calls of %s bytes" % (name, arm, list(ch)),
                         {"hasher": name, "arm": arm, "chunks": list(ch), "atoms": bv.n_atoms()} if len(ch) > 1 and ch[0] == 3 else None)
            engine_guard(go, report, rule, ikey)
    return n


def e2e_skein(report, cfg, rule="R5.6", chunks=None, only=None):
    f = facts.load(cfg)
    n = 0
    for t, name, nb, nout in check_skein.hasher_types(f):
        if only and (name, nout) not in only:
            continue
        for ch in (chunks or chunkings(nb)):
            ikey = "%s<%d> default+update%s+finalize@%s" % (name, nout, list(ch), cfg)
            n += 1

            def go():
                bv.reset()
                it = Interp(f, MODELS)
                msg, got = api_digest(it, f, t, ch, nout)
                exp = skein_spec(nb, nout, msg)
                _compare(report, rule, ikey, it, msg, got, exp, "%s<%d> over update calls of %s bytes" % (name, nout, list(ch)),
                         {"hasher": "%s<%d>" % (name, nout), "chunks": list(ch), "atoms": bv.n_atoms()} if len(ch) > 1 and ch[0] == 3 else None)
            engine_guard(go, report, rule, ikey)
    return n


def jh_spec(out_bits, msg):
    from spec import jh as J
    from . import check_jh
    n = len(msg) // 8
    tail = J.pad(n)
    data = msg + bv.const(int.from_bytes(tail, "little"), 8 * len(tail))
    h = bv.const(int.from_bytes(J.iv(out_bits), "little"), 1024)
    for i in range(len(data) // 512):
        h = check_jh.spec_f8(h, data[512 * i:512 * (i + 1)])
    return h[8 * (128 - out_bits // 8):]


def e2e_jh(report, cfg, rule="R6.8", names=None, chunks=None):
    """S-box layer as uninterpreted nibble functions on both sides (R6.1 decides the real body)."""
    from . import check_jh
    f = facts.load(cfg)
    n = 0
    for name, bits in check_jh.HASHERS.items():
        if names and name not in names:
            continue
        for ch in (chunks or chunkings(64)):
            ikey = "%s default+update%s+finalize@%s" % (name, list(ch), cfg)
            n += 1

            def go():
                bv.reset()
                it = Interp(f, MODELS, hooks={check_jh.layer_rx(f)[0]: check_jh.ss_hook})
                msg, got = api_digest(it, f, "jh_x86_64::%s" % name, ch, bits // 8)
                exp = jh_spec(bits, msg)
                _compare(report, rule, ikey, it, msg, got, exp, "%s over update calls of %s bytes" % (name, list(ch)),
                         {"hasher": name, "chunks": list(ch), "atoms": bv.n_atoms()} if len(ch) > 1 and ch[0] == 3 else None)
            engine_guard(go, report, rule, ikey)
    return n
