"""C08: incremental hashing is invariant under chunking, cloning and reset.
R8.1 state types hold plain data only; R8.2 clone is the identity on the state and reset equals
Default; R8.3 update(update(s, a), b) = update(s, a ++ b) as states (symbolic contents, boundary
lengths and buffer positions), per-block functions uninterpreted."""
import re

from . import bv, facts
from .interp import Interp, Undecided, Diverge, Agg, Enum, Ptr
from .models import M as MODELS
from .check_threefish import engine_guard, find, bytes_cell, cell_bytes
from . import check_blake, check_skein, check_groestl, check_jh

BB = "block_buffer::BlockBuffer<"


def hashers(f):
    """[(type key, family, block bytes)]"""
    out = []
    for name, v in check_blake.VARIANTS.items():
        out.append(("blake_hash::%s" % name, "blake", check_blake.B.PARAMS[v][2]))
    for name, (bits, cols, inner) in check_groestl.HASHERS.items():
        out.append(("groestl_aesni::%s" % name, "groestl", 8 * cols))
    for name in check_jh.HASHERS:
        out.append(("jh_x86_64::%s" % name, "jh", 64))
    for t, name, nb, n in check_skein.hasher_types(f):
        out.append((t, "skein", nb))
    return [h for h in out if h[0] in f.types]


def hooks_for(family, t, f=None):
    if family == "blake":
        w = 32 if ("224" in t or "256" in t) else 64
        c = 256 if w == 32 else 512
        return {check_blake.compress_hook_rx(w, f):
                check_blake.compress_hook("BLAKE%d_COMPRESS" % c, "blake_hash::Compressor%d" % c, 256 if w == 32 else 512)}
    if family == "skein":
        return check_skein.tf_hooks(None)
    if family == "groestl":
        big = "384" in t or "512" in t
        return check_groestl.opaque_compressor_hooks("Compressor1024" if big else "Compressor512", 16 if big else 8, f)
    if family == "jh":
        return {r"^jh_x86_64::compressor::Compressor::input$": check_jh.input_hook}
    raise KeyError(family)


def set_pos(it, v, t, p):
    """Return value v of type t with the `pos` of every contained BlockBuffer set to constant p."""
    d = it.ty.get(t)
    if d["kind"] != "struct":
        return v
    v = it.as_agg(v, t)
    fs = list(v.f)
    for i, fl in enumerate(d["variants"][0]["fields"]):
        if t.startswith(BB) and fl["name"] == "pos":
            fs[i] = bv.const(p, 64)
        elif it.ty.get(fl["ty"])["kind"] == "struct" and not it.ty.is_flat(fl["ty"]) and not it.ty.is_ga(fl["ty"]):
            fs[i] = set_pos(it, fs[i], fl["ty"], p)
    return Agg(fs)


def sym_hasher(it, t, p, name="self"):
    v = it.from_bits(bv.inp(name, it.ty.size_bits(t)), t)
    return set_pos(it, v, t, p)


SHAPE_OK = {"int", "bool", "array", "tuple", "struct", "union", "char"}


def shape_violations(f, t, path="", seen=None):
    """Leaves of a state type that are not plain owned data."""
    seen = seen or set()
    if t in seen:
        return []
    seen.add(t)
    d = f.types[t]
    k = d["kind"]
    out = []
    if k in ("ref", "rawptr", "fnptr", "dyn", "closure", "fndef"):
        return ["%s: %s %s" % (path or "self", k, facts.abbrev(t)[:60])]
    if k == "struct" or k == "union" or k == "enum":
        dn = d.get("def", "")
        if dn.startswith("core::cell::") or dn.startswith("alloc::rc::") or dn.startswith("alloc::sync::") \
                or dn.startswith("core::sync::atomic") or dn.startswith("std::sync::") or dn.startswith("alloc::boxed::") \
                or dn.startswith("alloc::vec::"):
            return ["%s: shared or heap state %s" % (path or "self", dn)]
        if d.get("freeze") is False:
            out.append("%s: interior mutability in %s" % (path or "self", dn))
        for var in d["variants"]:
            for fl in var["fields"]:
                out += shape_violations(f, fl["ty"], path + "." + fl["name"], seen)
    elif k == "array":
        out += shape_violations(f, d["elem"], path + "[]", seen)
    elif k == "tuple":
        for i, fl in enumerate(d["fields"]):
            out += shape_violations(f, fl["ty"], path + ".%d" % i, seen)
    return out


def c08_shape(report, cfg):
    f = facts.load(cfg)
    for t, fam, bb in hashers(f):
        ikey = "%s@%s" % (facts.abbrev(t), cfg)
        bad = shape_violations(f, t)
        if bad:
            report.violated("R8.1", ikey, "%s holds state that a clone could share or that can change behind &self: %s" % (facts.abbrev(t), "; ".join(bad[:3])))
        else:
            report.ok("R8.1", ikey, sample={"type": facts.abbrev(t), "size": f.types[t]["size"]})


def c08_clone_reset(report, cfg):
    f = facts.load(cfg)
    for t, fam, bb in hashers(f):
        # the buffer position is the one selector (compared / indexed with); everything else is symbolic
        for p in (0, 3, bb - 1):
            ikey = "%s clone/reset pos=%d@%s" % (facts.abbrev(t), p, cfg)

            def go():
                bv.reset()
                it = Interp(f, MODELS, hooks=hooks_for(fam, t, f))
                cl = find(f, r"^<%s as core::clone::Clone>::clone$" % re.escape(t))
                rs = find(f, r"^<%s as digest::Reset>::reset$" % re.escape(t))
                df = find(f, r"^<%s as core::default::Default>::default$" % re.escape(t))
                v = sym_hasher(it, t, p)
                cell = it.new_cell(v, "hasher")
                c = it.call_instance(cl, [Ptr(cell, ())])
                if it.to_bits(c, t) != it.to_bits(v, t):
                    report.violated("R8.2", ikey + ":clone", "%s::clone does not copy the state bit for bit" % facts.abbrev(t), graphs=(it.to_bits(c, t), it.to_bits(v, t)))
                    return
                if it.to_bits(cell.v, t) != it.to_bits(v, t):
                    report.violated("R8.2", ikey + ":clone", "%s::clone modifies the original" % facts.abbrev(t), graphs=(it.to_bits(cell.v, t), it.to_bits(v, t)))
                    return
                it.call_instance(rs, [Ptr(cell, ())])
                d = it.call_instance(df, [])
                if it.panics or [a for a in it.asserts if a["kind"] != "overflow:Add"]:
                    report.violated("R8.2", ikey + ":assert", "operand-dependent assertion in reset/default")
                    return
                got, exp = it.to_bits(cell.v, t), it.to_bits(d, t)
                if got != exp:
                    sup = sorted({n for n, _ in bv.support(got)} - {n for n, _ in bv.support(exp)})
                    report.violated("R8.2", ikey + ":reset", "%s::reset from a state with %d buffered bytes leaves a state different from Default::default()%s"
                                    % (facts.abbrev(t), p, " - it still depends on the previous state (%s)" % ", ".join(sup[:3]) if sup else ""), graphs=(got, exp))
                    return
                report.ok("R8.2", ikey, sample={"type": facts.abbrev(t), "pos": p} if p == 0 else None)
            engine_guard(go, report, "R8.2", ikey)


def c08_chunking(report, cfg, only=None, deep=False):
    f = facts.load(cfg)
    total = 0
    for t, fam, bb in hashers(f):
        if only and t != only:
            continue
        upd = find(f, r"^<%s as digest::Update>::update::<&\[u8\]>$" % re.escape(t))
        lens = (0, 1, bb - 1, bb, bb + 1, 2 * bb + 3)
        positions = (0, 1, bb - 1)
        if deep:
            # thorough: a mid-buffer position and long pieces (threshold-based fast paths), more residues
            lens = (0, 1, 17, bb - 1, bb, bb + 1, 2 * bb + 3, 4 * bb + bb - 14, 8 * bb + 3)
            positions = (0, 1, 17, bb // 2, bb - 1)
        for p in positions:
            for la in lens:
                for lb in lens:
                    ikey = "%s update(%d)+update(%d) at pos %d@%s" % (facts.abbrev(t), la, lb, p, cfg)
                    total += 1

                    def go():
                        bv.reset()
                        it = Interp(f, MODELS, hooks=hooks_for(fam, t, f))
                        v = sym_hasher(it, t, p)
                        c1 = it.new_cell(v, "h1")
                        c2 = it.new_cell(v, "h2")
                        abits, acell = bytes_cell(it, "a", la)
                        bbits, bcell = bytes_cell(it, "b", lb)
                        ab = it.new_cell(Agg(list(acell.v.f) + list(bcell.v.f)), "ab")
                        it.call_instance(upd, [Ptr(c1, ()), Ptr(acell, (), idx=0, meta=la, ety="u8")])
                        it.call_instance(upd, [Ptr(c1, ()), Ptr(bcell, (), idx=0, meta=lb, ety="u8")])
                        it.call_instance(upd, [Ptr(c2, ()), Ptr(ab, (), idx=0, meta=la + lb, ety="u8")])
                        if it.panics:
                            report.violated("R8.3", ikey, "conditional panic in update: %s" % (it.panics[0]["site"],))
                            return
                        s1, s2 = state_view(it, c1.v, t), state_view(it, c2.v, t)
                        if s1 == s2:
                            report.ok("R8.3", ikey, sample={"type": facts.abbrev(t), "pos": p, "a": la, "b": lb} if (p, la, lb) == (1, 1, 2 * bb + 3) else None)
                        else:
                            report.violated("R8.3", ikey, "%s: feeding %d then %d bytes from buffer position %d leaves a different state than feeding the %d bytes at once"
                                            % (facts.abbrev(t), la, lb, p, la + lb), graphs=flat_views(s1, s2))
                    engine_guard(go, report, "R8.3", ikey)
    return total


def flat_views(a, b):
    """Flatten two state views into comparable bit tuples (None when their shapes differ: a definite difference)."""
    def flat(x, out):
        if isinstance(x, tuple) and x and x[0] == "buffer":
            out.append(("pos", x[1]))
            out.extend(x[2])
        elif isinstance(x, tuple) and (not x or isinstance(x[0], tuple)):
            for y in x:
                flat(y, out)
        else:
            out.extend(x)
        return out
    fa, fb = flat(a, []), flat(b, [])
    if len(fa) != len(fb) or any(isinstance(x, tuple) != isinstance(y, tuple) or (isinstance(x, tuple) and x != y) for x, y in zip(fa, fb)):
        return None
    return tuple(x for x in fa if not isinstance(x, tuple)), tuple(y for y in fb if not isinstance(y, tuple))


def state_view(it, v, t):
    """State bits with the unused tail of every block buffer masked (bytes past `pos` are dead)."""
    d = it.ty.get(t)
    if d["kind"] != "struct" or it.ty.is_flat(t) or it.ty.is_ga(t):
        return it.to_bits(v, t)
    v = it.as_agg(v, t)
    if t.startswith(BB):
        names = [fl["name"] for fl in d["variants"][0]["fields"]]
        pos = bv.const_value(v.f[names.index("pos")])
        buf = v.f[names.index("buffer")]
        bits = it.to_bits(buf, d["variants"][0]["fields"][names.index("buffer")]["ty"])
        if pos is None:
            raise Undecided("symbolic buffer position")
        return ("buffer", pos, bits[:8 * pos])
    return tuple(state_view(it, x, fl["ty"]) for x, fl in zip(v.f, d["variants"][0]["fields"]))
