"""Loading of E0 fact files, with a content-hash keyed cache so the checks of one run share the
extraction work.  A changed /repo tree always re-extracts."""
import hashlib
import json
import os
import re
import shutil
import subprocess
import sys
import time

VERIF = os.path.dirname(os.path.dirname(os.path.abspath(__file__)))
REPO = "/repo"
CACHE = os.path.join(VERIF, ".cache")

WORKSPACE_CRATES = {
    "c2_chacha", "blake_hash", "groestl_aesni", "jh_x86_64", "skein_hash", "threefish_cipher",
    "ppv_lite86", "ppv_null", "crypto_simd",
}

CONFIGS = {
    # id: (cargo args, extra rustflags)
    "K1": ([], ""),
    "K2": (["--features", "no_simd"], ""),
    "K4": (["--features", "no_unroll"], ""),
    "K3-sse2": (["--no-default-features"], ""),
    "K3-ssse3": (["--no-default-features"], "-Ctarget-feature=+ssse3"),
    "K3-sse41": (["--no-default-features"], "-Ctarget-feature=+ssse3,+sse4.1"),
    "K3-avx": (["--no-default-features"], "-Ctarget-feature=+ssse3,+sse4.1,+avx"),
    "K3-avx2": (["--no-default-features"], "-Ctarget-feature=+ssse3,+sse4.1,+avx,+avx2"),
    "CONTROLS": ([], ""),
}


def repo_hash():
    h = hashlib.sha256()
    for root, dirs, files in os.walk(REPO):
        dirs[:] = sorted(d for d in dirs if d not in ("target", ".git"))
        for f in sorted(files):
            p = os.path.join(root, f)
            if os.path.islink(p):
                continue
            h.update(p.encode())
            try:
                with open(p, "rb") as fh:
                    h.update(fh.read())
            except OSError:
                pass
    # the extractor and fixture are part of the key
    for p in (os.path.join(VERIF, "factgen/src/walk.rs"), os.path.join(VERIF, "factgen/src/main.rs"),
              os.path.join(VERIF, "fixtures/roots/src/lib.rs"), os.path.join(VERIF, "fixtures/roots/Cargo.toml"),
              os.path.join(VERIF, "fixtures/controls/src/lib.rs")):
        with open(p, "rb") as fh:
            h.update(fh.read())
    return h.hexdigest()[:20]


_hash = None


def tree_hash():
    global _hash
    if _hash is None:
        _hash = repo_hash()
    return _hash


class ExtractionFailed(Exception):
    pass


def ensure_factgen():
    exe = os.path.join(VERIF, "factgen/target/debug/factgen")
    srcs = [os.path.join(VERIF, "factgen/src", n) for n in ("main.rs", "walk.rs", "json.rs")]
    stale = not os.path.exists(exe) or any(os.path.getmtime(p) > os.path.getmtime(exe) for p in srcs if os.path.exists(p))
    if stale:
        r = subprocess.run(["cargo", "build", "--offline"], cwd=os.path.join(VERIF, "factgen"),
                           capture_output=True, text=True)
        if r.returncode != 0:
            raise ExtractionFailed("factgen build failed:\n" + r.stderr[-2000:])
    return exe


def extract(config):
    """Return the directory holding the fact files of `config` for the current tree."""
    ensure_factgen()
    d = os.path.join(CACHE, tree_hash(), config)
    marker = os.path.join(d, "DONE")
    if os.path.exists(marker):
        return d
    # drop caches of other trees (bounded disk use)
    if os.path.isdir(CACHE):
        for other in os.listdir(CACHE):
            if other != tree_hash():
                shutil.rmtree(os.path.join(CACHE, other), ignore_errors=True)
    tmp = d + ".tmp%d" % os.getpid()
    shutil.rmtree(tmp, ignore_errors=True)
    os.makedirs(tmp)
    args, flags = CONFIGS[config]
    env = dict(os.environ)
    env["EXTRA_RUSTFLAGS"] = flags
    if config == "CONTROLS":
        env["FIXTURE"] = "controls"
    t0 = time.time()
    r = subprocess.run([os.path.join(VERIF, "engine/extract.sh"), tmp] + args, env=env,
                       capture_output=True, text=True)
    main_file = "verif_controls.json" if config == "CONTROLS" else "verif_roots.json"
    if r.returncode != 0 or not os.path.exists(os.path.join(tmp, main_file)):
        log = ""
        try:
            log = open(os.path.join(tmp, "cargo.log")).read()[-3000:]
        except OSError:
            pass
        shutil.rmtree(tmp, ignore_errors=True)
        raise ExtractionFailed("configuration %s does not build:\n%s\n%s" % (config, r.stdout[-1500:], log))
    with open(os.path.join(tmp, "DONE"), "w") as fh:
        fh.write("%.1f\n" % (time.time() - t0))
    shutil.rmtree(d, ignore_errors=True)
    try:
        os.rename(tmp, d)
    except OSError:
        shutil.rmtree(tmp, ignore_errors=True)  # another process won the race
    return d


class Facts:
    """One fact file (one crate in one configuration)."""

    def __init__(self, path):
        with open(path) as fh:
            d = json.load(fh)
        self.path = path
        self.crate = d["crate"]
        self.roots = d["roots"]
        self.items = d["items"]
        self.statics = d["statics"]
        self.unsafe_impls = d["unsafe_impls"]
        self.vocab = d["vocab"]
        self.defs = d["defs"]
        self.types = d["types"]
        self.instances = d["instances"]

    def krate_of_inst(self, key):
        return self.defs[self.instances[key]["def"]]["krate"]

    def find(self, pattern):
        rx = re.compile(pattern)
        return [k for k in self.instances if rx.search(k)]

    def find1(self, pattern):
        r = self.find(pattern)
        if len(r) != 1:
            raise KeyError("pattern %r matches %d instances: %s" % (pattern, len(r), r[:5]))
        return r[0]


_loaded = {}


def load(config, crate="verif_roots"):
    key = (config, crate)
    if key not in _loaded:
        d = extract(config)
        _loaded[key] = Facts(os.path.join(d, crate + ".json"))
    return _loaded[key]


def typenum_value(tystr):
    """Decode a typenum unsigned type string (UTerm / UInt<..., Bx>) into an int."""
    s = tystr.replace(" ", "")
    bits = re.findall(r"typenum::bit::B([01])", s)
    if "UTerm" not in s:
        return None
    v = 0
    for b in bits:
        v = v * 2 + int(b)
    # bits appear most-significant first in the nested printing
    return v


def abbrev(s):
    """Replace typenum unsigned types by U<n> (bracket matching) and drop noisy crate paths."""
    out = []
    i = 0
    tag = "typenum::uint::UInt<"
    while True:
        j = s.find(tag, i)
        if j < 0:
            out.append(s[i:])
            break
        out.append(s[i:j])
        depth = 0
        k = j + len(tag) - 1
        while k < len(s):
            if s[k] == "<":
                depth += 1
            elif s[k] == ">":
                depth -= 1
                if depth == 0:
                    break
            k += 1
        out.append("U%s" % typenum_value(s[j:k + 1]))
        i = k + 1
    r = "".join(out)
    return r


def short(key, n=200):
    """Shorten an instance key for messages."""
    s = abbrev(key)
    s = s.replace("ppv_lite86::x86_64::", "").replace("ppv_lite86::", "").replace("core::ops::", "")
    return s if len(s) <= n else s[: n - 3] + "..."
